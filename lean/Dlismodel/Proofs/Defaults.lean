/-
  Proofs about the write-time checks and defaults (`Model/Defaults.lean`): nothing the user assigned is replaced.
-/
import Dlismodel.Model.Defaults
import Dlismodel.Proofs.Util
namespace Dlis

/-- a dimension the user assigned is never replaced -/
theorem checkOrSetDim_keeps {d : List Nat} {v : PyVal} {r : Option (List Nat)}
    (h : checkOrSetDim (some d) v = .ok r) : r = some d := by
  unfold checkOrSetDim at h
  split at h
  · simpa using h.symm
  · split at h
    · simp at h
    · simp only at h
      split at h <;> simp at h
      exact h.symm

/-- … and it was consistent with the shape of the values; a dimension that is derived is that shape -/
theorem checkOrSetDim_consistent {dim r : Option (List Nat)} {v : PyVal} (hv : v ≠ .none)
    (h : checkOrSetDim dim v = .ok r) : ∃ sh, shapeV v = some sh ∧ r = some (dimOfShape sh) := by
  unfold checkOrSetDim at h
  split at h
  · exact absurd rfl hv
  · split at h
    · simp at h
    · rename_i sh hsh
      refine ⟨sh, hsh, ?_⟩
      split at h
      · rename_i d
        split at h
        · simp at h
        · rename_i hne
          simp at h
          rw [← h]
          simp at hne
          rw [hne]
      · simpa using h.symm

theorem limitCovers_refl (d : List Nat) : limitCovers d d = true := by
  induction d with
  | nil => simp [limitCovers]
  | cons x xs ih =>
    simp only [limitCovers, List.length_cons, ge_iff_le, Nat.le_refl, decide_true, List.zip_cons_cons, List.all_cons,
      Bool.true_and] at ih ⊢
    exact ih

/-- `_set_dimension_from_data`: an element limit the user assigned (non-empty) is kept as assigned, and covers the
dimension of the data; the dimension written is the per-row shape of the data -/
theorem channelFromData_spec {dimension limit : Option (List Nat)} {dim : List Nat} {d l : Option (List Nat)}
    (h : channelFromData dimension limit dim = .ok (d, l)) :
    d = some dim ∧ (truthyDim limit = true → l = limit ∧ limitCovers (limit.getD []) dim = true) ∧
      (truthyDim limit = false → l = some dim) := by
  unfold channelFromData at h
  simp only [bind_ok, pure_ok] at h
  obtain ⟨d', hd, l', hl, heq⟩ := h
  simp only [Prod.mk.injEq] at heq
  obtain ⟨rfl, rfl⟩ := heq
  unfold dimFromData at hd
  unfold limitFromData at hl
  refine ⟨?_, ?_, ?_⟩
  · split at hd
    · split at hd
      · simp at hd
      · simpa using hd.symm
    · rename_i he
      simp only [ne_eq, Decidable.not_not] at he
      simp at hd
      rw [← hd, he]
  · intro ht
    by_cases he : limit = some dim
    · simp only [he, ne_eq, not_true_eq_false, ↓reduceIte, Except.ok.injEq] at hl
      refine ⟨by rw [← hl, he], ?_⟩
      rw [he]; exact limitCovers_refl dim
    · simp only [ne_eq, he, not_false_eq_true, ↓reduceIte, ht] at hl
      by_cases hc : limitCovers (limit.getD []) dim = true
      · simp only [hc, ↓reduceIte, Except.ok.injEq] at hl
        exact ⟨hl.symm, hc⟩
      · simp [hc] at hl
  · intro hf
    by_cases he : limit = some dim
    · simp only [he, ne_eq, not_true_eq_false, ↓reduceIte, Except.ok.injEq] at hl
      rw [← hl]
    · simp only [ne_eq, he, not_false_eq_true, ↓reduceIte, hf, Bool.false_eq_true, Except.ok.injEq] at hl
      exact hl.symm

/-- a PARAMETER / COMPUTATION dimension the user assigned survives the checks unchanged -/
theorem paramDefaults_keeps {single : Bool} {values : PyVal} {zc : Option Nat} {d : List Nat}
    {axes : Option (List (Option Nat))} {r : Option (List Nat)} (hd : d ≠ [])
    (h : paramDefaults single values zc (some d) axes = .ok r) : r = some d := by
  unfold paramDefaults at h
  simp only [bind_ok, pure_ok] at h
  obtain ⟨_, _, _, _, d', hd', rfl⟩ := h
  have := checkOrSetDim_keeps hd'
  subst this
  cases d with
  | nil => exact absurd rfl hd
  | cons x xs => simp [truthyDim]

/-- the defaults of a channel never replace an assigned (non-empty) dimension or element limit -/
theorem dimAndLimit_keeps {dimension limit d l : Option (List Nat)} (h : dimAndLimit dimension limit = .ok (d, l)) :
    (truthyDim dimension = true → d = dimension) ∧ (truthyDim limit = true → l = limit) := by
  unfold dimAndLimit at h
  split at h
  · rename_i hc
    simp at h hc
    exact ⟨fun _ => h.1.symm, fun ht => by simp [ht] at hc⟩
  · split at h
    · rename_i hc
      simp at h hc
      exact ⟨fun ht => by simp [ht] at hc, fun _ => h.2.symm⟩
    · split at h
      · split at h
        · split at h
          · simp at h; exact ⟨fun _ => h.1.symm, fun _ => h.2.symm⟩
          · simp at h
        · simp at h
      · simp at h; exact ⟨fun _ => h.1.symm, fun _ => h.2.symm⟩

/-! ### a derived dimension never survives into the next check -/

theorem forget_assigned (d : Option (List Nat)) : (DimState.assigned d).forget = d := rfl

theorem dimOfShape_ne_nil (sh : List Nat) : dimOfShape sh ≠ [] := by
  unfold dimOfShape; split
  · simp
  · rename_i h; intro h2; rw [h2] at h; simp at h

/-- the checks see only what the user assigned -/
theorem paramCheckSt_fresh (single : Bool) (values : PyVal) (zc : Option Nat) (axes : Option (List (Option Nat)))
    (s : DimState) :
    paramCheckSt single values zc axes s = paramCheckSt single values zc axes (DimState.assigned s.forget) := by
  unfold paramCheckSt; rw [forget_assigned]

theorem checkOrSetDim_some {x : List Nat} {v : PyVal} {d : Option (List Nat)} (h : checkOrSetDim (some x) v = .ok d) :
    d = some x ∧ (v ≠ .none → x ≠ []) := by
  unfold checkOrSetDim at h
  split at h
  · simp at h; exact ⟨h.symm, fun hv => absurd rfl hv⟩
  · split at h
    · simp at h
    · simp only at h
      split at h
      · simp at h
      · rename_i sh _ hne
        simp at h hne
        refine ⟨h.symm, fun _ => ?_⟩
        rw [← hne]; exact dimOfShape_ne_nil sh

/-- … and leave what the user assigned as it was: whatever a check derives is gone before the next one -/
theorem paramCheckSt_user (single : Bool) (values : PyVal) (zc : Option Nat) (axes : Option (List (Option Nat)))
    (s : DimState) : (paramCheckSt single values zc axes s).1.forget = s.forget := by
  unfold paramCheckSt
  cases hp : paramDefaults single values zc s.forget axes with
  | error e => simp [DimState.forget]
  | ok d =>
    simp only
    cases hf : s.forget with
    | none =>
      cases d <;> simp [DimState.forget]
    | some x =>
      rw [hf] at hp
      unfold paramDefaults at hp
      simp only [bind_ok, pure_ok] at hp
      obtain ⟨_, _, _, _, d', hd', rfl⟩ := hp
      obtain ⟨rfl, hx⟩ := checkOrSetDim_some hd'
      simp only [Option.isNone_some, Bool.false_and, DimState.forget, Bool.false_eq_true, if_false]
      cases x with
      | cons a as => simp [truthyDim]
      | nil =>
        have : values = .none := by
          cases hv : values with
          | none => rfl
          | _ => exact absurd rfl (hx (by rw [hv]; simp))
        subst this
        simp [truthyVal]

theorem calMeasCheckSt_fresh (controlled : List PyVal) (axes : Option (List (Option Nat))) (s : DimState) :
    calMeasCheckSt controlled axes s = calMeasCheckSt controlled axes (DimState.assigned s.forget) := by
  unfold calMeasCheckSt; rw [forget_assigned]

theorem foldDimSt_user (d0 : Option (List Nat)) (vs : List PyVal) (t : DimState)
    (h : (t.derived = false ∧ t.held = d0) ∨ (t.derived = true ∧ d0 = none)) : (foldDimSt vs t).1.forget = d0 := by
  induction vs generalizing t with
  | nil =>
    simp only [foldDimSt, DimState.forget]
    rcases h with ⟨h1, h2⟩ | ⟨h1, h2⟩
    · simp [h1, h2]
    · simp [h1, h2]
  | cons v vs ih =>
    simp only [foldDimSt]
    cases hc : checkOrSetDim t.held v with
    | error e =>
      simp only [DimState.forget]
      rcases h with ⟨h1, h2⟩ | ⟨h1, h2⟩
      · simp [h1, h2]
      · simp [h1, h2]
    | ok d =>
      simp only
      apply ih
      rcases h with ⟨h1, h2⟩ | ⟨h1, h2⟩
      · cases hd0 : d0 with
        | some x =>
          rw [h2, hd0] at hc
          obtain ⟨rfl, _⟩ := checkOrSetDim_some hc
          left; simp [h1, h2, hd0]
        | none =>
          cases d with
          | none => left; simp [h1, h2, hd0]
          | some y => right; simp [h1, h2, hd0]
      · right; simp [h1, h2]

theorem calMeasCheckSt_user (controlled : List PyVal) (axes : Option (List (Option Nat))) (s : DimState) :
    (calMeasCheckSt controlled axes s).1.forget = s.forget := by
  unfold calMeasCheckSt
  split
  · simp [DimState.forget]
  · exact foldDimSt_user s.forget controlled _ (Or.inl ⟨rfl, rfl⟩)

theorem DimCheck.run_user (c : DimCheck) (s : DimState) : (c.run s).1.forget = s.forget := by
  cases c with
  | param single v zc ax => exact paramCheckSt_user single v zc ax s
  | calMeas vs ax => exact calMeasCheckSt_user vs ax s

theorem DimCheck.run_fresh (c : DimCheck) (s : DimState) : c.run s = c.run (DimState.assigned s.forget) := by
  cases c with
  | param single v zc ax => exact paramCheckSt_fresh single v zc ax s
  | calMeas vs ax => exact calMeasCheckSt_fresh vs ax s

theorem dimHistory_user (cs : List DimCheck) (s : DimState) : (dimHistory cs s).forget = s.forget := by
  induction cs generalizing s with
  | nil => rfl
  | cons c cs ih => simp only [dimHistory]; rw [ih, DimCheck.run_user]

/-- whatever checks (writes, refused or not) went before, with whatever values: a check gives the outcome, and leaves the
dimension, that it gives on an item to which only the user's own assignment was ever made -/
theorem check_after_any_history (cs : List DimCheck) (c : DimCheck) (s : DimState) :
    c.run (dimHistory cs s) = c.run (DimState.assigned s.forget) := by
  rw [DimCheck.run_fresh, dimHistory_user]

end Dlis
