/-
  Proofs about the write-time checks and defaults (`Model/Defaults.lean`): nothing the user assigned is replaced.
-/
import Dlismodel.Model.Defaults
import Dlismodel.Proofs.Util
namespace Dlis

/-- a dimension the user assigned is never replaced -/
theorem checkOrSetDim_keeps {d : List Nat} {v : PyVal} {r : Option (List Nat)}
    (h : checkOrSetDim (some d) v = .ok r) : r = some d := by
  unfold checkOrSetDim at h
  split at h
  · simpa using h.symm
  · split at h
    · simp at h
    · simp only at h
      split at h <;> simp at h
      exact h.symm

/-- … and it was consistent with the shape of the values; a dimension that is derived is that shape -/
theorem checkOrSetDim_consistent {dim r : Option (List Nat)} {v : PyVal} (hv : v ≠ .none)
    (h : checkOrSetDim dim v = .ok r) : ∃ sh, shapeV v = some sh ∧ r = some (dimOfShape sh) := by
  unfold checkOrSetDim at h
  split at h
  · exact absurd rfl hv
  · split at h
    · simp at h
    · rename_i sh hsh
      refine ⟨sh, hsh, ?_⟩
      split at h
      · rename_i d
        split at h
        · simp at h
        · rename_i hne
          simp at h
          rw [← h]
          simp at hne
          rw [hne]
      · simpa using h.symm

theorem limitCovers_refl (d : List Nat) : limitCovers d d = true := by
  induction d with
  | nil => simp [limitCovers]
  | cons x xs ih =>
    simp only [limitCovers, List.length_cons, ge_iff_le, Nat.le_refl, decide_true, List.zip_cons_cons, List.all_cons,
      Bool.true_and] at ih ⊢
    exact ih

/-- `_set_dimension_from_data`: an element limit the user assigned (non-empty) is kept as assigned, and covers the
dimension of the data; the dimension written is the per-row shape of the data -/
theorem channelFromData_spec {dimension limit : Option (List Nat)} {dim : List Nat} {d l : Option (List Nat)}
    (h : channelFromData dimension limit dim = .ok (d, l)) :
    d = some dim ∧ (truthyDim limit = true → l = limit ∧ limitCovers (limit.getD []) dim = true) ∧
      (truthyDim limit = false → l = some dim) := by
  unfold channelFromData at h
  simp only [bind_ok, pure_ok] at h
  obtain ⟨d', hd, l', hl, heq⟩ := h
  simp only [Prod.mk.injEq] at heq
  obtain ⟨rfl, rfl⟩ := heq
  unfold dimFromData at hd
  unfold limitFromData at hl
  refine ⟨?_, ?_, ?_⟩
  · split at hd
    · split at hd
      · simp at hd
      · simpa using hd.symm
    · rename_i he
      simp only [ne_eq, Decidable.not_not] at he
      simp at hd
      rw [← hd, he]
  · intro ht
    by_cases he : limit = some dim
    · simp only [he, ne_eq, not_true_eq_false, ↓reduceIte, Except.ok.injEq] at hl
      refine ⟨by rw [← hl, he], ?_⟩
      rw [he]; exact limitCovers_refl dim
    · simp only [ne_eq, he, not_false_eq_true, ↓reduceIte, ht] at hl
      by_cases hc : limitCovers (limit.getD []) dim = true
      · simp only [hc, ↓reduceIte, Except.ok.injEq] at hl
        exact ⟨hl.symm, hc⟩
      · simp [hc] at hl
  · intro hf
    by_cases he : limit = some dim
    · simp only [he, ne_eq, not_true_eq_false, ↓reduceIte, Except.ok.injEq] at hl
      rw [← hl]
    · simp only [ne_eq, he, not_false_eq_true, ↓reduceIte, hf, Bool.false_eq_true, Except.ok.injEq] at hl
      exact hl.symm

/-- a PARAMETER / COMPUTATION dimension the user assigned survives the checks unchanged -/
theorem paramDefaults_keeps {single : Bool} {values : PyVal} {zc : Option Nat} {d : List Nat}
    {axes : Option (List (Option Nat))} {r : Option (List Nat)} (hd : d ≠ [])
    (h : paramDefaults single values zc (some d) axes = .ok r) : r = some d := by
  unfold paramDefaults at h
  simp only [bind_ok, pure_ok] at h
  obtain ⟨_, _, _, _, d', hd', rfl⟩ := h
  have := checkOrSetDim_keeps hd'
  subst this
  cases d with
  | nil => exact absurd rfl hd
  | cons x xs => simp [truthyDim]

/-- the defaults of a channel never replace an assigned (non-empty) dimension or element limit -/
theorem dimAndLimit_keeps {dimension limit d l : Option (List Nat)} (h : dimAndLimit dimension limit = .ok (d, l)) :
    (truthyDim dimension = true → d = dimension) ∧ (truthyDim limit = true → l = limit) := by
  unfold dimAndLimit at h
  split at h
  · rename_i hc
    simp at h hc
    exact ⟨fun _ => h.1.symm, fun ht => by simp [ht] at hc⟩
  · split at h
    · rename_i hc
      simp at h hc
      exact ⟨fun ht => by simp [ht] at hc, fun _ => h.2.symm⟩
    · split at h
      · split at h
        · split at h
          · simp at h; exact ⟨fun _ => h.1.symm, fun _ => h.2.symm⟩
          · simp at h
        · simp at h
      · simp at h; exact ⟨fun _ => h.1.symm, fun _ => h.2.symm⟩

end Dlis
