import Dlismodel.Model.Api
namespace Dlis

/-! ### helpers -/

theorem countP_take_lt (items : List Item) (p : Item → Bool) (i j : Nat) (hij : i < j) (_hj : j ≤ items.length)
    (hi : i < items.length) (hp : p items[i] = true) :
    (items.take i).countP p < (items.take j).countP p := by
  have hsplit : items.take j = items.take i ++ (items.drop i).take (j - i) := by
    have : j = i + (j - i) := by omega
    conv => lhs; rw [this, List.take_add]
  rw [hsplit, List.countP_append]
  have hne : (items.drop i).take (j - i) = items[i] :: ((items.drop (i + 1)).take (j - i - 1)) := by
    rw [List.drop_eq_getElem_cons hi]
    have : j - i = (j - i - 1) + 1 := by omega
    rw [this, List.take_succ_cons]
    simp
  rw [hne, List.countP_cons_of_pos hp]
  omega

@[simp] theorem touchKey_items (w : World) (lf : Nat) (k : Key) : (touchKey w lf k).items = w.items := rfl
@[simp] theorem touchKey_headerOrigin (w : World) (lf : Nat) (k : Key) :
    (touchKey w lf k).headerOrigin = w.headerOrigin := rfl
@[simp] theorem appendItem_items (w : World) (it : Item) : (appendItem w it).items = w.items ++ [it] := rfl

/-! ### a rejected call -/

def Op.rejected : Op → Bool
  | .item _ _ _ _ _ out => out != .ok
  | .origin _ _ _ _ out => out != .ok

/-- C20 (first half, one step): a rejected call changes nothing at all -/
theorem rejected_is_identity (w : World) (op : Op) (h : op.rejected = true) : step w op = w := by
  cases op with
  | item lf kind sn name oref out =>
    simp only [Op.rejected] at h
    simp only [step]
    split
    · rfl
    · cases out <;> simp_all [addItem]
  | origin lf sn name oref out =>
    simp only [Op.rejected] at h
    simp only [step, addOrigin]
    split
    · rfl
    · cases out <;> simp_all

/-- … in particular every object, origin reference, copy number and the file header's origin -/
theorem rejected_keeps_items (w : World) (op : Op) (h : op.rejected = true) :
    (step w op).items = w.items ∧ (step w op).headerOrigin = w.headerOrigin := by
  cases op with
  | item lf kind sn name oref out =>
    simp only [Op.rejected] at h
    simp only [step]
    split
    · exact ⟨rfl, rfl⟩
    · cases out <;> simp_all [addItem]
  | origin lf sn name oref out =>
    simp only [Op.rejected] at h
    simp only [step, addOrigin]
    split
    · simp
    · cases out <;> simp_all

/-- the copy number given to a later object depends on the registered objects and the registries only -/
theorem copyNumber_congr (w w' : World) (h : w.items = w'.items) (hk : w.keys = w'.keys) (lf kind : Nat)
    (sn : Option PStr) (n : PStr) : copyNumber w lf kind sn n = copyNumber w' lf kind sn n := by
  simp [copyNumber, lfKeys, touchKey, h, hk]

end Dlis

namespace Dlis

/-! ### registries -/

theorem insertKey_split (ks : List Key) (k : Key) (h : k ∉ ks) :
    ∃ a b, ks = a ++ b ∧ insertKey ks k = a ++ [k] ++ b := by
  unfold insertKey
  rw [if_neg h]
  split
  · exact ⟨ks, [], by simp, by simp⟩
  · rename_i pre hpre
    refine ⟨(ks.reverse.dropWhile fun x => decide (x.1 ≠ k.1)).reverse,
            ks.drop (ks.reverse.dropWhile fun x => decide (x.1 ≠ k.1)).length, ?_, rfl⟩
    have hl := List.takeWhile_append_dropWhile (p := fun x => decide (x.1 ≠ k.1)) (l := ks.reverse)
    have hks : ks = (ks.reverse.dropWhile fun x => decide (x.1 ≠ k.1)).reverse ++
        (ks.reverse.takeWhile fun x => decide (x.1 ≠ k.1)).reverse := by
      rw [← List.reverse_append, hl, List.reverse_reverse]
    conv => lhs; rw [hks]
    congr 1
    conv => rhs; rw [hks]
    rw [List.drop_left' (by simp)]

theorem mem_insertKey (ks : List Key) (k x : Key) : x ∈ insertKey ks k ↔ x = k ∨ x ∈ ks := by
  by_cases h : k ∈ ks
  · simp only [insertKey, h, ↓reduceIte]
    constructor
    · exact Or.inr
    · rintro (rfl | hx) <;> assumption
  · obtain ⟨a, b, h1, h2⟩ := insertKey_split ks k h
    rw [h2, h1]
    simp only [List.mem_append, List.mem_singleton]
    constructor
    · rintro ((ha | rfl) | hb)
      · exact Or.inr (Or.inl ha)
      · exact Or.inl rfl
      · exact Or.inr (Or.inr hb)
    · rintro (rfl | ha | hb)
      · exact Or.inl (Or.inr rfl)
      · exact Or.inl (Or.inl ha)
      · exact Or.inr hb

theorem nodup_insertKey (ks : List Key) (k : Key) (h : ks.Nodup) : (insertKey ks k).Nodup := by
  by_cases hk : k ∈ ks
  · simp only [insertKey, hk, ↓reduceIte]; exact h
  · obtain ⟨a, b, h1, h2⟩ := insertKey_split ks k hk
    rw [h2]
    rw [h1] at h hk
    simp only [List.mem_append, not_or] at hk
    rw [List.append_assoc, List.nodup_append] at *
    simp only [List.singleton_append, List.nodup_cons, List.mem_cons] at *
    refine ⟨h.1, ⟨hk.2, h.2.1⟩, ?_⟩
    intro x hx y hy
    rcases hy with rfl | hy
    · intro he; subst he; exact hk.1 hx
    · exact h.2.2 x hx y hy

/-- every logical file's registry holds each (type, name) once, and every object's set is registered in the
logical file through which it was added -/
structure RegInv (w : World) : Prop where
  nodup : ∀ lf, (lfKeys w lf).Nodup
  itemKey : ∀ it ∈ w.items, it.key ∈ lfKeys w it.lf
  lens : w.headerOrigin.length = w.keys.length

theorem lfKeys_touch (w : World) (lf lf' : Nat) (k : Key) (h : lf' < w.keys.length) :
    lfKeys (touchKey w lf' k) lf = if lf = lf' then insertKey (lfKeys w lf) k else lfKeys w lf := by
  unfold lfKeys touchKey
  simp only [List.getD_eq_getElem?_getD, List.getElem?_modify]
  by_cases e : lf = lf'
  · subst e
    simp [h]
  · have : ¬ lf' = lf := fun x => e x.symm
    simp [e, this]

def Op.lf : Op → Nat
  | .item lf _ _ _ _ _ => lf
  | .origin lf _ _ _ _ => lf

theorem keys_length_step (w : World) (op : Op) : (step w op).keys.length = w.keys.length := by
  cases op with
  | item lf kind sn name oref out =>
    simp only [step]; split
    · rfl
    · unfold addItem; cases out <;> simp [touchKey, appendItem]
  | origin lf sn name oref out =>
    simp only [step, addOrigin]; split
    · simp [touchKey]
    · cases out
      · simp only; split <;> simp [backfill, touchKey, appendItem]
      · simp [touchKey]
      · simp [touchKey]

theorem RegInv_touch (w : World) (lf : Nat) (k : Key) (hlf : lf < w.keys.length) (h : RegInv w) :
    RegInv (touchKey w lf k) := by
  refine ⟨?_, ?_, ?_⟩
  · intro l
    rw [lfKeys_touch w l lf k hlf]
    split
    · exact nodup_insertKey _ _ (h.nodup l)
    · exact h.nodup l
  · intro it hit
    rw [lfKeys_touch w it.lf lf k hlf]
    have := h.itemKey it hit
    split
    · exact (mem_insertKey _ _ _).mpr (Or.inr this)
    · exact this
  · simpa [touchKey] using h.lens

theorem RegInv_append (w : World) (it : Item) (h : RegInv w) (hk : it.key ∈ lfKeys w it.lf) :
    RegInv (appendItem w it) := by
  refine ⟨h.nodup, ?_, h.lens⟩
  intro x hx
  simp only [appendItem_items, List.mem_append, List.mem_singleton] at hx
  rcases hx with hx | rfl
  · exact h.itemKey x hx
  · exact hk

theorem RegInv_backfill (w : World) (lf : Nat) (r : Int) (h : RegInv w) : RegInv (backfill w lf r) := by
  refine ⟨h.nodup, ?_, ?_⟩
  · intro x hx
    simp only [backfill, List.mem_map] at hx
    obtain ⟨y, hy, rfl⟩ := hx
    have := h.itemKey y hy
    split <;> exact this
  · simp [backfill, h.lens]

theorem step_RegInv (w : World) (op : Op) (hlf : op.lf < w.keys.length) (h : RegInv w) : RegInv (step w op) := by
  cases op with
  | item lf kind sn0 name oref out =>
    simp only [Op.lf] at hlf
    simp only [step]
    generalize normName sn0 = sn
    split
    · exact h
    · unfold addItem
      have ht := RegInv_touch w lf (kind, sn) hlf h
      cases out
      · apply RegInv_append _ _ ht
        simp only [Item.key]
        rw [lfKeys_touch w lf lf (kind, sn) hlf]
        simp [mem_insertKey]
      · exact h
      · exact h
  | origin lf sn0 name oref out =>
    simp only [Op.lf] at hlf
    simp only [step, addOrigin]
    generalize normName sn0 = sn
    have ht := RegInv_touch w lf (0, sn) hlf h
    split
    · exact h
    · cases out
      · simp only
        have ha : RegInv (appendItem (touchKey w lf (0, sn))
            (Item.mk lf 0 sn name (some ‹Int›) (copyNumber w lf 0 sn name))) := by
          apply RegInv_append _ _ ht
          simp only [Item.key]
          rw [lfKeys_touch w lf lf (0, sn) hlf]
          simp [mem_insertKey]
        split
        · exact RegInv_backfill _ _ _ ha
        · exact ha
      · exact h
      · exact h

theorem RegInv_init (n : Nat) : RegInv (World.init n) := by
  refine ⟨?_, ?_, by simp [World.init]⟩
  · intro lf
    unfold lfKeys World.init
    simp only [List.getD_eq_getElem?_getD]
    by_cases h : lf < n
    · simp [h]
    · simp [h]
  · intro it hit; simp [World.init] at hit

/-! ### copy numbers -/

/-- (bound) an object's copy number is at most the number of earlier objects of its type and name that its logical
file has registered by now; (mono) the objects of one type and name added through one logical file have increasing
copy numbers -/
structure CopyInv (w : World) : Prop where
  bound : ∀ i (h : i < w.items.length),
    w.items[i].copy ≤ (w.items.take i).countP (fun x => decide (x.kind = w.items[i].kind) &&
      decide (x.key ∈ lfKeys w w.items[i].lf) && decide (x.name = w.items[i].name))
  mono : ∀ i j (hi : i < w.items.length) (hj : j < w.items.length), i < j → w.items[i].lf = w.items[j].lf →
    w.items[i].kind = w.items[j].kind → w.items[i].name = w.items[j].name → w.items[i].copy < w.items[j].copy

theorem CopyInv_init (n : Nat) : CopyInv (World.init n) := by
  constructor
  · intro i h; simp [World.init] at h
  · intro i j hi; simp [World.init] at hi

/-- C07: same-named objects of one type added through one logical file get distinct copy numbers — whatever sets of
that type they are in -/
theorem copy_unique (w : World) (h : CopyInv w) (i j : Nat) (hi : i < w.items.length) (hj : j < w.items.length)
    (hij : i ≠ j) (hl : w.items[i].lf = w.items[j].lf) (hk : w.items[i].kind = w.items[j].kind)
    (hn : w.items[i].name = w.items[j].name) : w.items[i].copy ≠ w.items[j].copy := by
  rcases Nat.lt_or_gt_of_ne hij with hlt | hgt
  · exact Nat.ne_of_lt (h.mono i j hi hj hlt hl hk hn)
  · exact (Nat.ne_of_lt (h.mono j i hj hi hgt hl.symm hk.symm hn.symm)).symm

theorem copyNumber_eq (w : World) (lf kind : Nat) (sn : Option PStr) (name : PStr) :
    copyNumber w lf kind sn name = w.items.countP (fun x => decide (x.kind = kind) &&
      decide (x.key ∈ lfKeys (touchKey w lf (kind, sn)) lf) && decide (x.name = name)) := by
  unfold copyNumber
  rw [List.countP_filter]
  congr 1
  funext x
  simp [Bool.and_comm, Bool.and_assoc]

/-- registering a set only adds to what a logical file sees -/
theorem lfKeys_touch_mono (w : World) (lf lf' : Nat) (k x : Key) (h : x ∈ lfKeys w lf) :
    x ∈ lfKeys (touchKey w lf' k) lf := by
  by_cases hl : lf' < w.keys.length
  · rw [lfKeys_touch w lf lf' k hl]
    split
    · exact (mem_insertKey _ _ _).mpr (Or.inr h)
    · exact h
  · have : touchKey w lf' k = w := by
      unfold touchKey
      have : w.keys.modify lf' (fun ks => insertKey ks k) = w.keys := by
        apply List.ext_getElem?
        intro n
        rw [List.getElem?_modify]
        by_cases e : lf' = n
        · subst e; simp [List.getElem?_eq_none (by omega : w.keys.length ≤ lf')]
        · simp [e]
      rw [this]
    rw [this]; exact h

theorem CopyInv_append (w : World) (lf kind : Nat) (sn : Option PStr) (name : PStr) (o : Option Int)
    (hlf : lf < w.keys.length) (hr : RegInv w) (h : CopyInv w) :
    CopyInv (appendItem (touchKey w lf (kind, sn)) (Item.mk lf kind sn name o (copyNumber w lf kind sn name))) := by
  have hlen : (appendItem (touchKey w lf (kind, sn)) (Item.mk lf kind sn name o (copyNumber w lf kind sn name))).items =
      w.items ++ [Item.mk lf kind sn name o (copyNumber w lf kind sn name)] := rfl
  have hkeys : ∀ l, lfKeys (appendItem (touchKey w lf (kind, sn)) (Item.mk lf kind sn name o (copyNumber w lf kind sn name))) l =
      lfKeys (touchKey w lf (kind, sn)) l := fun _ => rfl
  constructor
  · intro i hi
    simp only [hlen] at hi ⊢
    simp only [hkeys]
    by_cases hlt : i < w.items.length
    · have e1 : (w.items ++ [Item.mk lf kind sn name o (copyNumber w lf kind sn name)])[i] = w.items[i] :=
        List.getElem_append_left hlt
      have e2 : (w.items ++ [Item.mk lf kind sn name o (copyNumber w lf kind sn name)]).take i = w.items.take i := by
        rw [List.take_append_of_le_length (by omega)]
      rw [e1, e2]
      refine Nat.le_trans (h.bound i hlt) ?_
      apply List.countP_mono_left
      intro x _ hx
      simp only [Bool.and_eq_true, decide_eq_true_eq] at hx ⊢
      exact ⟨⟨hx.1.1, lfKeys_touch_mono w _ lf _ _ hx.1.2⟩, hx.2⟩
    · have hi' : i = w.items.length := by simp at hi; omega
      subst hi'
      have e1 : (w.items ++ [Item.mk lf kind sn name o (copyNumber w lf kind sn name)])[w.items.length] =
          Item.mk lf kind sn name o (copyNumber w lf kind sn name) := by simp
      have e2 : (w.items ++ [Item.mk lf kind sn name o (copyNumber w lf kind sn name)]).take w.items.length = w.items := by simp
      rw [e1, e2, copyNumber_eq]
      exact Nat.le_refl _
  · intro i j hi hj hij hl hk hn
    simp only [hlen] at hi hj hl hk hn ⊢
    by_cases hjl : j < w.items.length
    · have hil : i < w.items.length := by omega
      have ei : (w.items ++ [Item.mk lf kind sn name o (copyNumber w lf kind sn name)])[i] = w.items[i] :=
        List.getElem_append_left hil
      have ej : (w.items ++ [Item.mk lf kind sn name o (copyNumber w lf kind sn name)])[j] = w.items[j] :=
        List.getElem_append_left hjl
      rw [ei, ej] at hl hk hn ⊢
      exact h.mono i j hil hjl hij hl hk hn
    · have hj' : j = w.items.length := by simp at hj; omega
      subst hj'
      have hil : i < w.items.length := hij
      have ei : (w.items ++ [Item.mk lf kind sn name o (copyNumber w lf kind sn name)])[i] = w.items[i] :=
        List.getElem_append_left hil
      have ej : (w.items ++ [Item.mk lf kind sn name o (copyNumber w lf kind sn name)])[w.items.length] =
          Item.mk lf kind sn name o (copyNumber w lf kind sn name) := by simp
      rw [ei, ej] at hl hk hn ⊢
      simp only at hl hk hn ⊢
      rw [copyNumber_eq]
      -- the earlier object is itself among those counted for the new one
      have hp : (fun x : Item => decide (x.kind = kind) && decide (x.key ∈ lfKeys (touchKey w lf (kind, sn)) lf) &&
          decide (x.name = name)) w.items[i] = true := by
        simp only [Bool.and_eq_true, decide_eq_true_eq]
        refine ⟨⟨hk, ?_⟩, hn⟩
        have := hr.itemKey w.items[i] (List.getElem_mem hil)
        rw [hl] at this
        exact lfKeys_touch_mono w lf lf _ _ this
      have hlt := countP_take_lt w.items (fun x : Item => decide (x.kind = kind) &&
          decide (x.key ∈ lfKeys (touchKey w lf (kind, sn)) lf) && decide (x.name = name)) i w.items.length hil
          (Nat.le_refl _) hil hp
      rw [List.take_length] at hlt
      refine Nat.lt_of_le_of_lt ?_ hlt
      refine Nat.le_trans (h.bound i hil) ?_
      apply List.countP_mono_left
      intro x _ hx
      simp only [Bool.and_eq_true, decide_eq_true_eq] at hx ⊢
      refine ⟨⟨hx.1.1.trans hk, ?_⟩, hx.2.trans hn⟩
      have := hx.1.2
      rw [hl] at this
      exact lfKeys_touch_mono w lf lf _ _ this

theorem CopyInv_backfill (w : World) (lf : Nat) (r : Int) (h : CopyInv w) : CopyInv (backfill w lf r) := by
  have hf : ∀ it : Item, ((if it.origin.isNone ∧ it.key ∈ lfKeys w lf then { it with origin := some r } else it).kind = it.kind ∧
      (if it.origin.isNone ∧ it.key ∈ lfKeys w lf then { it with origin := some r } else it).key = it.key ∧
      (if it.origin.isNone ∧ it.key ∈ lfKeys w lf then { it with origin := some r } else it).name = it.name ∧
      (if it.origin.isNone ∧ it.key ∈ lfKeys w lf then { it with origin := some r } else it).copy = it.copy ∧
      (if it.origin.isNone ∧ it.key ∈ lfKeys w lf then { it with origin := some r } else it).lf = it.lf) := by
    intro it; split <;> exact ⟨rfl, rfl, rfl, rfl, rfl⟩
  have hkeys : ∀ l, lfKeys (backfill w lf r) l = lfKeys w l := fun _ => rfl
  constructor
  · intro i hi
    have hi' : i < w.items.length := by simpa [backfill] using hi
    simp only [backfill, List.getElem_map, ← List.map_take, List.countP_map, hkeys]
    obtain ⟨h1, h2, h3, h4, h5⟩ := hf w.items[i]
    rw [h1, h3, h4, h5]
    refine Nat.le_trans (h.bound i hi') (Nat.le_of_eq ?_)
    congr 1
    funext x
    obtain ⟨g1, g2, g3, _, _⟩ := hf x
    simp only [Function.comp, g1, g2, g3]
    rfl
  · intro i j hi hj hij hl hk hn
    have hi' : i < w.items.length := by simpa [backfill] using hi
    have hj' : j < w.items.length := by simpa [backfill] using hj
    simp only [backfill, List.getElem_map] at hl hk hn ⊢
    obtain ⟨a1, _, a3, a4, a5⟩ := hf w.items[i]
    obtain ⟨b1, _, b3, b4, b5⟩ := hf w.items[j]
    rw [a5, b5] at hl; rw [a1, b1] at hk; rw [a3, b3] at hn
    rw [a4, b4]
    exact h.mono i j hi' hj' hij hl hk hn

/-- the invariant holds in every reachable state -/
theorem step_CopyInv (w : World) (op : Op) (hlf : op.lf < w.keys.length) (hr : RegInv w) (h : CopyInv w) :
    CopyInv (step w op) := by
  cases op with
  | item lf kind sn0 name oref out =>
    simp only [Op.lf] at hlf
    simp only [step]
    generalize normName sn0 = sn
    split
    · exact h
    · unfold addItem
      cases out
      · exact CopyInv_append w lf kind sn name _ hlf hr h
      · exact h
      · exact h
  | origin lf sn0 name oref out =>
    simp only [Op.lf] at hlf
    simp only [step, addOrigin]
    generalize normName sn0 = sn
    split
    · exact h
    · rename_i r _
      cases out
      · have happ := CopyInv_append w lf 0 sn name (some r) hlf hr h
        simp only
        split
        · exact CopyInv_backfill _ _ _ happ
        · exact happ
      · exact h
      · exact h

/-- all histories of valid calls keep the registries consistent and the copy numbers right -/
theorem run_invariants (n : Nat) (ops : List Op) (hv : ∀ op ∈ ops, op.lf < n) :
    RegInv (run (World.init n) ops) ∧ CopyInv (run (World.init n) ops) := by
  suffices H : ∀ w, w.keys.length = n → RegInv w → CopyInv w → RegInv (run w ops) ∧ CopyInv (run w ops) from
    H _ (by simp [World.init]) (RegInv_init n) (CopyInv_init n)
  induction ops with
  | nil => intro w _ h1 h2; exact ⟨h1, h2⟩
  | cons op ops ih =>
    intro w hw h1 h2
    have hop : op.lf < w.keys.length := by rw [hw]; exact hv op (by simp)
    exact ih (fun o ho => hv o (by simp [ho])) (step w op) (by rw [keys_length_step]; exact hw)
      (step_RegInv w op hop h1) (step_CopyInv w op hop h1 h2)

/-! ### C18: logical files are isolated -/

def NoShared (w : World) : Prop :=
  ∀ a b, a < b → b < w.keys.length → ∀ k, k ∈ lfKeys w a → k ∈ lfKeys w b → itemsOfKey w k = []

theorem noShared_of_sharedSet (w : World) (h : sharedSet w = false) : NoShared w := by
  intro a b hab hb k ka kb
  cases hi : itemsOfKey w k with
  | nil => rfl
  | cons x xs =>
    exfalso
    have : sharedSet w = true := by
      unfold sharedSet
      rw [List.any_eq_true]
      refine ⟨a, by simp; omega, ?_⟩
      rw [List.any_eq_true]
      refine ⟨b, by simp; omega, ?_⟩
      simp only [Bool.and_eq_true, decide_eq_true_eq]
      refine ⟨hab, ?_⟩
      rw [List.any_eq_true]
      exact ⟨k, ka, by simp [kb, hi]⟩
    rw [h] at this; exact Bool.noConfusion this

theorem filterMap_keys_sublist (g : Key → Option (Key × List Item)) (hg : ∀ k p, g k = some p → p.1 = k)
    (l : List Key) : ((l.filterMap g).map (·.1)).Sublist l := by
  induction l with
  | nil => simp
  | cons k l ih =>
    simp only [List.filterMap_cons]
    cases hgk : g k with
    | none => exact List.Sublist.cons _ ih
    | some p =>
      simp only [List.map_cons, hg k p hgk]
      exact List.Sublist.cons_cons _ ih

theorem lfKeys_mem_lt (w : World) (lf : Nat) (k : Key) (h : k ∈ lfKeys w lf) : lf < w.keys.length := by
  unfold lfKeys at h
  by_cases hl : lf < w.keys.length
  · exact hl
  · simp [List.getD_eq_getElem?_getD, hl] at h

theorem mem_setRecords (w : World) (lf : Nat) (k : Key) (its : List Item) (h : (k, its) ∈ setRecords w lf) :
    k ∈ lfKeys w lf ∧ its = itemsOfKey w k ∧ its ≠ [] := by
  unfold setRecords at h
  simp only [List.mem_filterMap, List.mem_append, List.mem_filter] at h
  obtain ⟨k', hk', hsome⟩ := h
  split at hsome
  · simp at hsome
  · rename_i hne
    simp only [Option.some.injEq, Prod.mk.injEq] at hsome
    obtain ⟨rfl, rfl⟩ := hsome
    refine ⟨?_, rfl, by intro he; simp [he] at hne⟩
    rcases hk' with ⟨h1, _⟩ | ⟨h1, _⟩ <;> exact h1

/-- C18: in a writable state every set record of a logical file holds only objects added through that
logical file -/
theorem records_isolated (w : World) (hr : RegInv w) (hw : writable w = true) (lf : Nat) (k : Key)
    (its : List Item) (h : (k, its) ∈ setRecords w lf) : ∀ it ∈ its, it.lf = lf := by
  intro it hit
  obtain ⟨hk, rfl, _⟩ := mem_setRecords w lf k its h
  have hkey : it.key = k := by
    simp only [itemsOfKey, List.mem_filter, decide_eq_true_eq] at hit; exact hit.2
  have hmem : it ∈ w.items := by
    simp only [itemsOfKey, List.mem_filter] at hit; exact hit.1
  have hk2 := hr.itemKey it hmem
  rw [hkey] at hk2
  unfold writable at hw
  simp only [Bool.and_eq_true, Bool.not_eq_eq_eq_not, Bool.not_true] at hw
  have hns := noShared_of_sharedSet w hw.2
  by_cases he : it.lf = lf
  · exact he
  · exfalso
    have hne : itemsOfKey w k ≠ [] := List.ne_nil_of_mem hit
    rcases Nat.lt_or_gt_of_ne he with hlt | hgt
    · exact hne (hns it.lf lf hlt (lfKeys_mem_lt w lf k hk) k hk2 hk)
    · exact hne (hns lf it.lf hgt (lfKeys_mem_lt w it.lf k hk2) k hk hk2)

/-- C18, the other direction: every object added through a logical file is emitted in that logical file -/
theorem records_complete (w : World) (hr : RegInv w) (it : Item) (hit : it ∈ w.items) :
    ∃ its, (it.key, its) ∈ setRecords w it.lf ∧ it ∈ its := by
  have hk := hr.itemKey it hit
  have hin : it ∈ itemsOfKey w it.key := by simp [itemsOfKey, hit]
  refine ⟨itemsOfKey w it.key, ?_, hin⟩
  unfold setRecords
  simp only [List.mem_filterMap, List.mem_append, List.mem_filter]
  refine ⟨it.key, ?_, ?_⟩
  · by_cases h0 : it.key.1 = 0
    · exact Or.inl ⟨hk, by simp [h0]⟩
    · exact Or.inr ⟨hk, by simp [h0]⟩
  · have : (itemsOfKey w it.key).isEmpty = false := by
      cases hx : itemsOfKey w it.key with
      | nil => rw [hx] at hin; simp at hin
      | cons _ _ => rfl
    simp [this]

/-- C09: ORIGIN sets come first, then all other sets; each (type, name) at most once; no empty set -/
theorem setRecords_shape (w : World) (hr : RegInv w) (lf : Nat) :
    ∃ o r, setRecords w lf = o ++ r ∧ (∀ p ∈ o, p.1.1 = 0) ∧ (∀ p ∈ r, p.1.1 ≠ 0) ∧
      ((setRecords w lf).map (·.1)).Nodup ∧ ∀ p ∈ setRecords w lf, p.2 ≠ [] ∧ ∀ it ∈ p.2, it.key = p.1 := by
  let f : Key → Option (Key × List Item) := fun k =>
    let its := itemsOfKey w k
    if its.isEmpty then none else some (k, its)
  have hdef : setRecords w lf = ((lfKeys w lf).filter (fun k => k.1 = 0)).filterMap f ++
      ((lfKeys w lf).filter (fun k => k.1 ≠ 0)).filterMap f := by
    unfold setRecords; rw [List.filterMap_append]
  have hf : ∀ k p, f k = some p → p.1 = k ∧ p.2 = itemsOfKey w k ∧ p.2 ≠ [] := by
    intro k p hp
    simp only [f] at hp
    split at hp
    · simp at hp
    · rename_i hne
      simp at hp; subst hp
      exact ⟨rfl, rfl, fun he => hne (by simpa using he)⟩
  refine ⟨_, _, hdef, ?_, ?_, ?_, ?_⟩
  · intro p hp
    simp only [List.mem_filterMap, List.mem_filter, decide_eq_true_eq] at hp
    obtain ⟨k, ⟨_, hk0⟩, hfk⟩ := hp
    rw [(hf k p hfk).1]; exact hk0
  · intro p hp
    simp only [List.mem_filterMap, List.mem_filter, decide_eq_true_eq] at hp
    obtain ⟨k, ⟨_, hk0⟩, hfk⟩ := hp
    rw [(hf k p hfk).1]; exact hk0
  · -- keys of the records are a sublist of (origin keys ++ other keys), which has no duplicates
    have hsub : ((setRecords w lf).map (·.1)).Sublist
        ((lfKeys w lf).filter (fun k => k.1 = 0) ++ (lfKeys w lf).filter (fun k => k.1 ≠ 0)) := by
      have : setRecords w lf = ((lfKeys w lf).filter (fun k => k.1 = 0) ++
          (lfKeys w lf).filter (fun k => k.1 ≠ 0)).filterMap f := rfl
      rw [this]
      exact filterMap_keys_sublist f (fun k p hp => (hf k p hp).1) _
    apply List.Nodup.sublist hsub
    have hn := hr.nodup lf
    rw [List.nodup_append]
    refine ⟨hn.filter _, hn.filter _, ?_⟩
    intro a ha b hb hab
    simp only [List.mem_filter, decide_eq_true_eq] at ha hb
    subst hab
    exact hb.2 ha.2
  · intro p hp
    rw [hdef] at hp
    simp only [List.mem_append, List.mem_filterMap] at hp
    have : ∃ k, f k = some p := by
      rcases hp with ⟨k, _, h⟩ | ⟨k, _, h⟩ <;> exact ⟨k, h⟩
    obtain ⟨k, hk⟩ := this
    obtain ⟨h1, h2, h3⟩ := hf k p hk
    refine ⟨h3, ?_⟩
    intro it hit
    rw [h2] at hit
    simp only [itemsOfKey, List.mem_filter, decide_eq_true_eq] at hit
    rw [h1]; exact hit.2

/-- C20: a set created by a rejected call has no objects, so the records written right afterwards are
exactly those of the state before the call -/
theorem setRecords_touch_empty (w : World) (lf lf' : Nat) (k : Key) (hlf : lf' < w.keys.length)
    (hempty : k ∉ lfKeys w lf' → itemsOfKey w k = []) :
    setRecords (touchKey w lf' k) lf = setRecords w lf := by
  have hit : ∀ k', itemsOfKey (touchKey w lf' k) k' = itemsOfKey w k' := fun _ => rfl
  unfold setRecords
  simp only [hit]
  rw [lfKeys_touch w lf lf' k hlf]
  split
  · rename_i he
    subst he
    by_cases hk : k ∈ lfKeys w lf
    · simp [insertKey, hk]
    · obtain ⟨a, b, h1, h2⟩ := insertKey_split (lfKeys w lf) k hk
      have he := hempty hk
      rw [h2, h1]
      simp only [List.filter_append, List.filterMap_append, List.append_assoc]
      have z : ∀ (p : Key → Bool), List.filterMap (fun k' => if (itemsOfKey w k').isEmpty = true then none
          else some (k', itemsOfKey w k')) (List.filter p [k]) = [] := by
        intro p
        simp only [List.filter_cons, List.filter_nil]
        split <;> simp [he]
      rw [z, z]
      simp
  · rfl

end Dlis
