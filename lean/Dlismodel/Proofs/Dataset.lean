import Dlismodel.Model.Dataset
import Dlismodel.Proofs.Util
namespace Dlis

theorem firstFree_fresh {taken : List PStr} {name : PStr} {fuel i : Nat} {d : PStr}
    (h : firstFree taken name fuel i = some d) : d ∉ taken := by
  induction fuel generalizing i with
  | zero => simp [firstFree] at h
  | succ f ih =>
    simp only [firstFree] at h
    split at h
    · exact ih h
    · rename_i hc
      simp at h; subst h
      simpa using hc

/-- the data set name given to a channel is never one already in use -/
theorem datasetName_fresh {taken : List PStr} {name : PStr} {e : Option PStr} {d : PStr}
    (h : datasetName taken name e = .ok d) : d ∉ taken := by
  unfold datasetName at h
  split at h
  · split at h
    · simp at h
    · rename_i hc; simp at h; subst h; simpa using hc
  · split at h
    · rename_i hc; simp at h; subst h; simpa using hc
    · split at h
      · rename_i n hn; simp at h; subst h; exact firstFree_fresh hn
      · simp at h

/-- the names given to the accepted calls of a history are those the same history gives without its rejected calls -/
theorem datasetNames_rejected_invisible (taken : List PStr) (calls : List (PStr × Option PStr × Bool)) :
    ((datasetNames taken calls).zip calls).filterMap (fun p => if p.2.2.2 then some p.1 else none) =
      datasetNames taken (calls.filter fun c => c.2.2) := by
  induction calls generalizing taken with
  | nil => simp [datasetNames]
  | cons c cs ih =>
    obtain ⟨n, e, ok⟩ := c
    simp only [datasetNames]
    cases hd : datasetName taken n e with
    | ok d =>
      cases ok with
      | true => simp [datasetNames, hd, ih]
      | false => simp [ih]
    | error x =>
      cases ok with
      | true => simp [datasetNames, hd, ih]
      | false => simp [ih]

end Dlis
