/-
  Proofs about the converter layer (`Model/Convert.lean`): what each converter does to one value, how the
  multivalued / multidimensional wrapper distributes it over the values given, what the writer is handed, and the
  exactness of int -> double for magnitudes up to 2^53.
-/
import Dlismodel.Model.Convert
import Dlismodel.Proofs.Util
import Dlismodel.Proofs.Eflr
namespace Dlis

/-- converters that hand back the very value they were given (or refuse it) -/
def Conv.idLike : Conv → Bool
  | .ident | .text | .validateString | .eflr _ | .eflrOrText _ => true
  | _ => false

theorem applyConv_idLike {c : Conv} {hc : Bool} {rc : Except Err (Option Nat)} {mem : List PStr} {v r : PyVal}
    (hc' : c.idLike = true) (h : applyConv c hc rc mem v = .ok r) : r = v := by
  cases c <;> simp [Conv.idLike] at hc' <;> cases v <;> simp [applyConv] at h <;> try (exact h.symm)
  all_goals (repeat' split at h) <;> simp at h <;> try (exact h.symm)

theorem wrap_idLike {c : Conv} {hc : Bool} {rc : Except Err (Option Nat)} {mem : List PStr} {md : Bool}
    (hc' : c.idLike = true) :
    (∀ v r, wrapConv c hc rc mem md v = .ok r → r = v) ∧
    (∀ vs rs, wrapConvs c hc rc mem md vs = .ok rs → rs = vs) := by
  apply wrapConv.mutual_induct md (fun v => ∀ r, wrapConv c hc rc mem md v = .ok r → r = v)
    (fun vs => ∀ rs, wrapConvs c hc rc mem md vs = .ok rs → rs = vs)
  · intro l hmd ih r h
    subst hmd
    simp only [wrapConv, ↓reduceIte] at h
    cases hw : wrapConvs c hc rc mem true l with
    | error e => rw [hw] at h; simp [Except.map] at h
    | ok rs => rw [hw] at h; simp [Except.map] at h; rw [← h, ih rs hw]
  · intro l hmd r h
    simp only [wrapConv, hmd, Bool.false_eq_true, ↓reduceIte] at h
    exact applyConv_idLike hc' h
  · intro v hv r h
    have : wrapConv c hc rc mem md v = applyConv c hc rc mem v := by
      cases v <;> simp [wrapConv] ; exact absurd rfl (hv _)
    rw [this] at h
    exact applyConv_idLike hc' h
  · intro rs h; simp [wrapConvs] at h; exact h
  · intro v vs ih1 ih2 rs h
    simp only [wrapConvs, bind_ok, pure_ok] at h
    obtain ⟨r, hr, rs', hrs, rfl⟩ := h
    rw [ih1 r hr, ih2 rs' hrs]

/-! ### every converter but the identity refuses a sequence where one value is expected -/

def Conv.leafOnly : Conv → Bool
  | .ident => false
  | _ => true

theorem applyConv_list {c : Conv} {hc : Bool} {rc : Except Err (Option Nat)} {mem : List PStr} {l : List PyVal} {r : PyVal}
    (hl : c.leafOnly = true) : applyConv c hc rc mem (.list l) ≠ .ok r := by
  cases c <;> simp [Conv.leafOnly] at hl <;> simp [applyConv, intParser, floatParser, isNumber]
  all_goals (repeat' split) <;> simp_all [intParser, floatParser, isNumber]

theorem flattenL_cons (v : PyVal) (vs : List PyVal) : flattenL (v :: vs) = flattenV v ++ flattenL vs := by
  simp [flattenL]

theorem All2_append {α β : Type} {R : α → β → Prop} {a1 a2 : List α} {b1 b2 : List β}
    (h1 : All2 R a1 b1) (h2 : All2 R a2 b2) : All2 R (a1 ++ a2) (b1 ++ b2) := by
  induction h1 with
  | nil => simpa using h2
  | cons hr _ ih => exact All2.cons hr ih

/-- a leaf-only converter maps the flattened given values one-to-one onto the flattened held values -/
theorem wrap_leaves {c : Conv} {hc : Bool} {rc : Except Err (Option Nat)} {mem : List PStr} {md : Bool}
    (hl : c.leafOnly = true) :
    (∀ v r, wrapConv c hc rc mem md v = .ok r →
      All2 (fun x y => applyConv c hc rc mem x = .ok y) (flattenV v) (flattenV r)) ∧
    (∀ vs rs, wrapConvs c hc rc mem md vs = .ok rs →
      All2 (fun x y => applyConv c hc rc mem x = .ok y) (flattenL vs) (flattenL rs)) := by
  apply wrapConv.mutual_induct md
    (fun v => ∀ r, wrapConv c hc rc mem md v = .ok r →
      All2 (fun x y => applyConv c hc rc mem x = .ok y) (flattenV v) (flattenV r))
    (fun vs => ∀ rs, wrapConvs c hc rc mem md vs = .ok rs →
      All2 (fun x y => applyConv c hc rc mem x = .ok y) (flattenL vs) (flattenL rs))
  · intro l hmd ih r h
    subst hmd
    simp only [wrapConv, ↓reduceIte] at h
    cases hw : wrapConvs c hc rc mem true l with
    | error e => rw [hw] at h; simp [Except.map] at h
    | ok rs =>
      rw [hw] at h; simp [Except.map] at h; subst h
      simpa [flattenV] using ih rs hw
  · intro l hmd r h
    simp only [wrapConv, hmd, Bool.false_eq_true, ↓reduceIte] at h
    exact absurd h (applyConv_list hl)
  · intro v hv r h
    have e : wrapConv c hc rc mem md v = applyConv c hc rc mem v := by
      cases v <;> simp [wrapConv] ; exact absurd rfl (hv _)
    rw [e] at h
    have hv' : flattenV v = [v] := by cases v <;> simp [flattenV] ; exact absurd rfl (hv _)
    have hr' : flattenV r = [r] := by
      cases r <;> simp [flattenV]
      -- a converter never produces a sequence from a non-sequence
      rename_i l
      exfalso
      cases c <;> cases v <;> simp [applyConv, intParser, floatParser, toFloat, isNumber] at h <;>
        (repeat' split at h) <;> simp_all [intParser, floatParser, toFloat, isNumber]
    rw [hv', hr']
    exact All2.cons h All2.nil
  · intro rs h; simp [wrapConvs] at h; subst h; simpa [flattenL] using All2.nil
  · intro v vs ih1 ih2 rs h
    simp only [wrapConvs, bind_ok, pure_ok] at h
    obtain ⟨r, hr, rs', hrs, rfl⟩ := h
    rw [flattenL_cons, flattenL_cons]
    exact All2_append (ih1 r hr) (ih2 rs' hrs)

/-! ### what each converter does to one value -/

/-- the integer a Python number stands for, if it is integral -/
def intOf : PyVal → Option Int
  | .bool b => some (if b then 1 else 0)
  | .int i => some i
  | .float f => f64ToInt f
  | _ => none

theorem intParser_spec {v r : PyVal} (h : intParser v = .ok r) : ∃ i, r = .int i ∧ intOf v = some i := by
  cases v <;> simp [intParser] at h
  · exact ⟨_, h.symm, rfl⟩
  · split at h <;> simp at h; exact ⟨_, h.symm, rfl⟩
  · split at h <;> simp at h; rename_i i hi; exact ⟨i, h.symm, hi⟩

/-- `float(v)`: a float is kept bit for bit (NaN payload and signed zero included); an integer becomes the
nearest double -/
theorem floatParser_spec {v r : PyVal} (h : floatParser v = .ok r) :
    ∃ f, r = .float f ∧ (v = .float f ∨ (∃ i, v = .int i ∧ intToF64R i = some f) ∨
      (∃ b, v = .bool b ∧ f = if b then 0x3FF0000000000000 else 0)) := by
  cases v <;> simp [floatParser, isNumber, toFloat] at h
  · exact ⟨_, h.symm, Or.inr (Or.inr ⟨_, rfl, rfl⟩)⟩
  · split at h <;> simp at h; rename_i f hf; exact ⟨f, h.symm, Or.inr (Or.inl ⟨_, rfl, hf⟩)⟩
  · exact ⟨_, h.symm, Or.inl rfl⟩

theorem numeric_spec {intOnly hc : Bool} {rc : Except Err (Option Nat)} {mem : List PStr} {v r : PyVal}
    (h : applyConv (.numeric intOnly) hc rc mem v = .ok r) :
    (∃ i, r = .int i ∧ intOf v = some i) ∨
    (∃ f, r = .float f ∧ (v = .float f ∨ (∃ i, v = .int i ∧ intToF64R i = some f) ∨
      (∃ b, v = .bool b ∧ f = if b then 0x3FF0000000000000 else 0))) := by
  simp only [applyConv] at h
  split at h
  · exact Or.inl (intParser_spec h)
  · split at h
    · simp at h
    · split at h
      · exact Or.inl (intParser_spec h)
      · exact Or.inr (floatParser_spec h)

/-- an int-only attribute (DIMENSION, ELEMENT-LIMIT, …) or one with an integer representation code holds integers only -/
theorem numeric_int_coded {hc : Bool} {rc : Except Err (Option Nat)} {mem : List PStr} {v r : PyVal} {intOnly : Bool}
    (hi : intOnly = true ∨ ∃ c, rc = .ok (some c) ∧ intCodes.contains c = true)
    (h : applyConv (.numeric intOnly) hc rc mem v = .ok r) : ∃ i, r = .int i ∧ intOf v = some i := by
  simp only [applyConv] at h
  split at h
  · exact intParser_spec h
  · rcases hi with hi | ⟨c, hc1, hc2⟩
    · contradiction
    · subst hc1
      have : usesIntParser false (some c) = true := by simp only [usesIntParser, hc2, Bool.or_true]
      simp only [this, ↓reduceIte] at h
      exact intParser_spec h

/-- STATUS attributes hold 0 or 1, and it is the number (or truth value) given -/
theorem status_spec {hc : Bool} {rc : Except Err (Option Nat)} {mem : List PStr} {v r : PyVal}
    (h : applyConv .status hc rc mem v = .ok r) :
    ∃ i, r = .int i ∧ (i = 0 ∨ i = 1) ∧
      (intOf v = some i ∨ ∃ s ec p, v = .str s ec p ∧ p.asInt = some i) := by
  cases v with
  | bool b => cases b <;> simp [applyConv] at h <;> exact ⟨_, h.symm, by simp, Or.inl rfl⟩
  | int i =>
    simp only [applyConv] at h
    split at h
    · rename_i hi; simp at h; exact ⟨_, h.symm, hi, Or.inl rfl⟩
    · simp at h
  | float f =>
    simp only [applyConv] at h
    split at h
    · rename_i i hf
      split at h
      · rename_i hi; simp at h; exact ⟨i, h.symm, hi, Or.inl hf⟩
      · simp at h
    · simp at h
  | str s ec p =>
    simp only [applyConv] at h
    split at h
    · rename_i i hp
      split at h
      · rename_i hi; simp at h; exact ⟨i, h.symm, hi, Or.inr ⟨s, ec, p, rfl, hp⟩⟩
      · simp at h
    · simp at h
  | _ => simp [applyConv] at h

/-- a strict enumeration (and every enumeration in high-compatibility mode) holds only member values -/
theorem enum_strict {cls : String} {soft an hc : Bool} {rc : Except Err (Option Nat)} {mem : List PStr} {v r : PyVal}
    (hs : (soft && !hc) = false) (h : applyConv (.enum cls soft an) hc rc mem v = .ok r) :
    (r = .none ∧ v = .none ∧ an = true) ∨
    (∃ s ec p, v = .str s ec p ∧ r = .str s (if ec = some cls then none else ec) p ∧
      (ec = some cls ∨ mem.contains s = true)) := by
  cases v <;> simp [applyConv] at h
  · split at h <;> simp at h; rename_i ha; exact Or.inl ⟨h.symm, rfl, ha⟩
  · rename_i s ec p
    split at h
    · rename_i he; simp at h; exact Or.inr ⟨s, ec, p, rfl, by simp [he, h.symm], Or.inl he⟩
    · rename_i he
      split at h
      · rename_i hm; simp at h; exact Or.inr ⟨s, ec, p, rfl, by simp [he, h.symm], Or.inr (by simpa using hm)⟩
      · split at h
        · rename_i hh; exfalso; obtain ⟨h1, h2⟩ := hh; subst h1; subst h2; simp at hs
        · simp at h

/-- in high-compatibility mode a name-like attribute holds only strings over `[A-Z0-9_-]`, non-empty -/
theorem validateString_hc {rc : Except Err (Option Nat)} {mem : List PStr} {v r : PyVal}
    (h : applyConv .validateString true rc mem v = .ok r) : ∃ s ec p, r = .str s ec p ∧ r = v ∧ hcString s = true := by
  cases v <;> simp [applyConv] at h
  rename_i s ec p
  split at h <;> simp at h
  rename_i hh
  exact ⟨s, ec, p, h.symm, h.symm, hh⟩

/-- a date-time attribute holds a `datetime` — the one given, or the one the string parses to — or, only where
floats are allowed, a float -/
theorem dtime_spec {af hc : Bool} {rc : Except Err (Option Nat)} {mem : List PStr} {v r : PyVal}
    (h : applyConv (.dtime af) hc rc mem v = .ok r) :
    (∃ t, r = .dtime t ∧ (v = .dtime t ∨ ∃ s ec p, v = .str s ec p ∧ p.asDtime = some t)) ∨
    (af = true ∧ ∃ f, r = .float f) := by
  cases v <;> simp [applyConv] at h
  · split at h <;> simp [toFloat] at h; rename_i ha; exact Or.inr ⟨ha, _, h.symm⟩
  · split at h <;> simp [toFloat] at h; rename_i ha
    split at h <;> simp at h; exact Or.inr ⟨ha, _, h.symm⟩
  · split at h <;> simp [toFloat] at h; rename_i ha; exact Or.inr ⟨ha, _, h.symm⟩
  · rename_i s ec p
    split at h
    · rename_i t ht; simp at h; exact Or.inl ⟨t, h.symm, Or.inr ⟨s, ec, p, rfl, ht⟩⟩
    · split at h
      · rename_i ha
        split at h
        · simp at h; exact Or.inr ⟨ha, _, h.symm⟩
        · simp at h
      · simp at h
  · exact Or.inl ⟨_, h.symm, Or.inl rfl⟩

/-! ### the value setter as a whole -/

/-- what the user's argument amounts to as a flat sequence of values -/
theorem flattenV_items (v : PyVal) : flattenL (itemsOf v) = flattenV v := by
  cases v <;> simp [itemsOf, flattenL, flattenV]

theorem convertValue_multivalued {a : AttrSpec} {hc : Bool} {rc : Except Err (Option Nat)} {mem : List PStr} {v r : PyVal}
    (hm : a.multivalued = true) (h : convertValue a hc rc mem v = .ok r) : ∃ l, r = .list l := by
  simp only [convertValue, hm, ↓reduceIte] at h
  cases hw : wrapConvs a.conv hc rc mem a.multidim (itemsOf v) with
  | error e => rw [hw] at h; simp [Except.map] at h
  | ok rs => rw [hw] at h; simp [Except.map] at h; exact ⟨rs, h.symm⟩

/-- identity-like converters (plain, text, names, references): the attribute holds exactly the values given, in
order — as a list when the attribute is multivalued -/
theorem convertValue_idLike {a : AttrSpec} {hc : Bool} {rc : Except Err (Option Nat)} {mem : List PStr} {v r : PyVal}
    (hi : a.conv.idLike = true) (h : convertValue a hc rc mem v = .ok r) :
    r = (if a.multivalued then .list (itemsOf v) else v) := by
  simp only [convertValue] at h
  split at h
  · rename_i hm
    cases hw : wrapConvs a.conv hc rc mem a.multidim (itemsOf v) with
    | error e => rw [hw] at h; simp [Except.map] at h
    | ok rs =>
      rw [hw] at h; simp [Except.map] at h
      rw [← h, (wrap_idLike hi).2 _ _ hw, if_pos hm]
  · rename_i hm
    rw [if_neg hm]
    exact (wrap_idLike hi).1 _ _ h

/-- every other converter: the held values correspond one-to-one, in order, to the values given, each being the
converter's image of the given one -/
theorem convertValue_leaves {a : AttrSpec} {hc : Bool} {rc : Except Err (Option Nat)} {mem : List PStr} {v r : PyVal}
    (hl : a.conv.leafOnly = true) (h : convertValue a hc rc mem v = .ok r) :
    All2 (fun x y => applyConv a.conv hc rc mem x = .ok y) (flattenV v) (flattenV r) := by
  simp only [convertValue] at h
  split at h
  · cases hw : wrapConvs a.conv hc rc mem a.multidim (itemsOf v) with
    | error e => rw [hw] at h; simp [Except.map] at h
    | ok rs =>
      rw [hw] at h; simp [Except.map] at h
      have := (wrap_leaves hl).2 _ _ hw
      rw [flattenV_items] at this
      rw [← h]; simpa [flattenV] using this
  · exact (wrap_leaves hl).1 _ _ h

theorem mapM_length {α β : Type} {f : α → Option β} {l : List α} {r : List β} (h : l.mapM f = some r) :
    r.length = l.length := by
  induction l generalizing r with
  | nil => simp at h; subst h; rfl
  | cons x xs ih =>
    simp only [List.mapM_cons, obind_some] at h
    obtain ⟨y, _, ys, hys, h⟩ := h
    simp at h; subst h
    simp [ih hys]

/-- what the writer is handed: the held values flattened, the code `representation_code` reports, the units -/
theorem toAttrSt_spec {a : AttrSpec} {st : AttrState} {s : AttrSt} (h : toAttrSt a st = .ok (some s)) :
    (flattenV st.value).mapM leafAVal = some s.vals ∧ reprCode a st.value = .ok s.rc ∧ s.units = st.units ∧
      s.isList = (match st.value with | .list _ => true | _ => false) := by
  unfold toAttrSt at h
  split at h
  · simp at h
  · simp only [bind_ok] at h
    obtain ⟨rc, hrc, h⟩ := h
    split at h
    · simp at h
    · rename_i vals hv
      simp only [pure_ok, Except.ok.injEq, Option.some.injEq] at h
      subst h
      exact ⟨hv, hrc, rfl, rfl⟩

/-- the count written equals the number of values held -/
theorem toAttrSt_count {a : AttrSpec} {st : AttrState} {s : AttrSt} (h : toAttrSt a st = .ok (some s)) :
    pyCount a st.value = some s.count := by
  obtain ⟨hv, _, _, hl⟩ := toAttrSt_spec h
  have hlen := mapM_length hv
  cases hval : st.value with
  | none => unfold toAttrSt at h; rw [hval] at h; simp at h
  | list l =>
    rw [hval] at hl hlen
    simp only [pyCount, AttrSt.count, hl, ↓reduceIte, hlen, flattenV]
  | _ =>
    rw [hval] at hl hlen
    simp [pyCount, AttrSt.count, hl]

/-! ### `float(int)` is exact up to 2^53 -/

theorem f64_fields (s e m : Nat) (hs : s ≤ 1) (he : e < 2048) (hm : m < 2 ^ 52) :
    f64Exp (s * 2 ^ 63 + e * 2 ^ 52 + m) = e ∧ f64Man (s * 2 ^ 63 + e * 2 ^ 52 + m) = m ∧
      f64Sign (s * 2 ^ 63 + e * 2 ^ 52 + m) = decide (s = 1) := by
  simp only [f64Exp, f64Man, f64Sign, Nat.reducePow] at *
  refine ⟨by omega, by omega, ?_⟩
  have : (s * 9223372036854775808 + e * 4503599627370496 + m) / 9223372036854775808 % 2 = s := by omega
  rw [this]

/-- a normal double whose significand is `a` shifted left: the integer `a` -/
theorem f64ToInt_shifted (s a k : Nat) (hs : s ≤ 1) (hk : k ≤ 52) (h1 : 2 ^ k ≤ a) (h2 : a < 2 ^ (k + 1)) :
    f64ToInt (s * 2 ^ 63 + (k + 1023) * 2 ^ 52 + (a * 2 ^ (52 - k) - 2 ^ 52)) =
      some (if s = 1 then -(a : Int) else (a : Int)) := by
  have hp : 2 ^ k * 2 ^ (52 - k) = 2 ^ 52 := by rw [← Nat.pow_add]; congr 1; omega
  have hp' : 2 ^ (k + 1) * 2 ^ (52 - k) = 2 ^ 53 := by rw [← Nat.pow_add]; congr 1; omega
  have hpos : 0 < 2 ^ (52 - k) := Nat.pow_pos (by omega)
  have hlo : 2 ^ 52 ≤ a * 2 ^ (52 - k) := by rw [← hp]; exact Nat.mul_le_mul_right _ h1
  have hhi : a * 2 ^ (52 - k) < 2 ^ 53 := by rw [← hp']; exact Nat.mul_lt_mul_of_pos_right h2 hpos
  obtain ⟨he, hm, hsg⟩ := f64_fields s (k + 1023) (a * 2 ^ (52 - k) - 2 ^ 52) hs (by omega) (by omega)
  unfold f64ToInt
  simp only [he, hm, hsg]
  have hsig : 2 ^ 52 + (a * 2 ^ (52 - k) - 2 ^ 52) = a * 2 ^ (52 - k) := by omega
  rw [hsig, if_neg (by omega), if_neg (by omega)]
  by_cases hk52 : k = 52
  · subst hk52
    simp
  · rw [if_neg (by omega)]
    have e1 : 1075 - (k + 1023) = 52 - k := by omega
    rw [e1, Nat.mul_mod_left, if_pos rfl, Nat.mul_div_cancel _ hpos]
    simp

/-- integers of magnitude up to 2^53 become the double that stands for exactly that integer -/
theorem intToF64R_exact (i : Int) (h : i.natAbs ≤ 2 ^ 53) : ∃ f, intToF64R i = some f ∧ f64ToInt f = some i := by
  by_cases h0 : i = 0
  · subst h0; exact ⟨0, by simp [intToF64R], by decide⟩
  · have ha : i.natAbs ≠ 0 := by omega
    have hlog := (Nat.log2_eq_iff (k := i.natAbs.log2) ha).1 rfl
    have hk53 : i.natAbs.log2 < 54 := (Nat.log2_lt ha).2 (by omega)
    by_cases hk : i.natAbs.log2 ≤ 52
    · unfold intToF64R
      rw [if_neg h0]
      simp only [hk, ↓reduceIte]
      refine ⟨_, rfl, ?_⟩
      have := f64ToInt_shifted (if i < 0 then 1 else 0) i.natAbs i.natAbs.log2 (by split <;> omega) hk hlog.1 hlog.2
      have e : (if i < 0 then 2 ^ 63 else 0) = (if i < 0 then 1 else 0) * 2 ^ 63 := by split <;> simp
      rw [e, this]
      split <;> simp <;> omega
    · have hk' : i.natAbs.log2 = 53 := by omega
      have hval : i.natAbs = 2 ^ 53 := by
        have := hlog.1; rw [hk'] at this; omega
      have hi : i = 2 ^ 53 ∨ i = -(2 ^ 53) := by omega
      rcases hi with hi | hi <;> subst hi
      · exact ⟨0x4340000000000000, by decide +kernel, by decide +kernel⟩
      · exact ⟨0xC340000000000000, by decide +kernel, by decide +kernel⟩

end Dlis
