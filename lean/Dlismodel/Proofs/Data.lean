import Dlismodel.Model.Data
import Dlismodel.Proofs.Iflr
namespace Dlis

theorem loadChunk_all {α : Type} (rows : List α) : loadChunk rows 0 rows.length = rows := by
  simp [loadChunk]

theorem full_chunks_take {α : Type} (rows : List α) (c : Nat) (k : Nat) :
    ((List.range k).map (fun i => (i * c, (i + 1) * c))).flatMap (fun (p : Nat × Nat) => loadChunk rows p.1 p.2)
      = rows.take (k * c) := by
  induction k with
  | zero => simp
  | succ k ih =>
    rw [List.range_succ, List.map_append, List.flatMap_append, ih]
    simp only [List.map_cons, List.map_nil, List.flatMap_cons, List.flatMap_nil, List.append_nil, loadChunk]
    have : (k + 1) * c - k * c = c := by rw [Nat.add_mul]; omega
    rw [this, Nat.add_mul, Nat.one_mul, List.take_add]

/-- C10/C03: for every chunk size ≥ 1 (divisor or not, larger than the data or not) the rows come out exactly
once and in order -/
theorem chunkedRows_eq {α : Type} (rows : List α) (c : Option Nat) (hc : ∀ k, c = some k → 1 ≤ k) :
    chunkedRows rows c = rows := by
  cases c with
  | none => exact loadChunk_all rows
  | some c =>
    have h1 := hc c rfl
    simp only [chunkedRows, chunkBounds, List.flatMap_append]
    have := full_chunks_take rows c (rows.length / c)
    rw [this]
    have hdm := Nat.div_add_mod rows.length c
    by_cases hr : rows.length % c ≠ 0
    · simp only [hr, ↓reduceIte, List.flatMap_cons, List.flatMap_nil, List.append_nil, loadChunk, ne_eq,
        not_false_eq_true]
      have hle : rows.length / c * c ≤ rows.length := by rw [Nat.mul_comm]; omega
      have : (rows.drop (rows.length / c * c)).take (rows.length - rows.length / c * c)
          = rows.drop (rows.length / c * c) := by
        apply List.take_of_length_le; simp
      rw [this, List.take_append_drop]
    · have hr0 : rows.length % c = 0 := by simpa using hr
      simp only [hr, ↓reduceIte, List.flatMap_nil, List.append_nil]
      apply List.take_of_length_le
      rw [Nat.mul_comm]; omega

theorem frameRecordsFrom_spec (frame : ObName) : ∀ (rows : List (List Slot)) (k : Nat) (bodies : List Bytes),
    (∀ r ∈ rows, ∀ s ∈ r, SlotOk s) → frameRecordsFrom frame k rows = .ok bodies →
    bodies.length = rows.length ∧
      ∀ i (hi : i < rows.length) (hi' : i < bodies.length),
        decFrameData (rows[i].map fun s => (s.size, s.elems.length)) bodies[i] =
          some ({ origin := frame.origin.toNat, copy := frame.copy.toNat, name := frame.name.map b8 },
                k + i + 1, rows[i].map (·.elems)) := by
  intro rows
  induction rows with
  | nil => intro k bodies _ h; simp [frameRecordsFrom] at h; subst h; simp
  | cons r rs ih =>
    intro k bodies hok h
    simp only [frameRecordsFrom, bind_ok, pure_ok] at h
    obtain ⟨b, hb, bs, hbs, rfl⟩ := h
    obtain ⟨hl, hrest⟩ := ih (k + 1) bs (fun r' hr' => hok r' (by simp [hr'])) hbs
    refine ⟨by simp [hl], ?_⟩
    intro i hi hi'
    cases i with
    | zero =>
      have := decFrameData_frameDataBody frame ((k : Int) + 1) r b (hok r (by simp)) hb
      simp only [List.getElem_cons_zero]
      rw [this]
      have e : ((k : Int) + 1).toNat = k + 0 + 1 := by omega
      rw [e]
    | succ j =>
      have := hrest j (by simpa using hi) (by simpa using hi')
      simp only [List.getElem_cons_succ]
      rw [this]
      have e : k + 1 + j + 1 = k + (j + 1) + 1 := by omega
      rw [e]

end Dlis
