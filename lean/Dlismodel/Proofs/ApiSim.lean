/-
  Simulation between a history of add_* calls and the same history without its rejected calls (C20, all steps).
-/
import Dlismodel.Proofs.Api
namespace Dlis

/-! ### many steps: the history with the rejected calls against the history without them -/

def originKeys (w : World) (lf : Nat) : List Key := (lfKeys w lf).filter (fun k => k.1 = 0)

theorem originsOfLf_eq (w : World) (lf : Nat) : originsOfLf w lf = (originKeys w lf).flatMap (itemsOfKey w) := rfl

/-- the part of the registry after the insertion point holds no key of the inserted key's kind -/
theorem insertKey_split' (ks : List Key) (k : Key) (h : k ∉ ks) :
    ∃ a b, ks = a ++ b ∧ insertKey ks k = a ++ [k] ++ b ∧ ∀ x ∈ b, x.1 ≠ k.1 := by
  unfold insertKey
  rw [if_neg h]
  split
  · exact ⟨ks, [], by simp, by simp, by simp⟩
  · rename_i pre hpre
    refine ⟨(ks.reverse.dropWhile fun x => decide (x.1 ≠ k.1)).reverse,
            (ks.reverse.takeWhile fun x => decide (x.1 ≠ k.1)).reverse, ?_, ?_, ?_⟩
    · have hl := List.takeWhile_append_dropWhile (p := fun x => decide (x.1 ≠ k.1)) (l := ks.reverse)
      rw [← List.reverse_append, hl, List.reverse_reverse]
    · have hl := List.takeWhile_append_dropWhile (p := fun x => decide (x.1 ≠ k.1)) (l := ks.reverse)
      have hks : ks = (ks.reverse.dropWhile fun x => decide (x.1 ≠ k.1)).reverse ++
          (ks.reverse.takeWhile fun x => decide (x.1 ≠ k.1)).reverse := by
        rw [← List.reverse_append, hl, List.reverse_reverse]
      congr 1
      conv => lhs; rw [hks]
      rw [List.drop_left' (by simp)]
    · intro x hx
      have hall := List.all_takeWhile (p := fun x : Key => decide (x.1 ≠ k.1)) (l := ks.reverse)
      rw [List.all_eq_true] at hall
      have := hall x (List.mem_reverse.mp hx)
      simpa using this

theorem filter_origin_insertKey_other (ks : List Key) (k : Key) (hk : k.1 ≠ 0) :
    (insertKey ks k).filter (fun x => x.1 = 0) = ks.filter (fun x => x.1 = 0) := by
  by_cases h : k ∈ ks
  · simp [insertKey, h]
  · obtain ⟨a, b, h1, h2, _⟩ := insertKey_split' ks k h
    rw [h2, h1]
    simp [List.filter_append, hk]

theorem filter_origin_insertKey_origin (ks : List Key) (k : Key) (hk : k.1 = 0) :
    (insertKey ks k).filter (fun x => x.1 = 0) =
      if k ∈ ks then ks.filter (fun x => x.1 = 0) else ks.filter (fun x => x.1 = 0) ++ [k] := by
  by_cases h : k ∈ ks
  · simp [insertKey, h]
  · obtain ⟨a, b, h1, h2, h3⟩ := insertKey_split' ks k h
    rw [if_neg h, h2, h1]
    have hb : b.filter (fun x => x.1 = 0) = [] := by
      rw [List.filter_eq_nil_iff]
      intro x hx
      have := h3 x hx
      simp; omega
    simp [List.filter_append, hk, hb]

def Op.key : Op → Key
  | .item _ kind sn _ _ _ => (kind, normName sn)
  | .origin _ sn _ _ _ => (0, normName sn)

def Op.isOrigin : Op → Bool
  | .origin .. => true
  | _ => false

/-- `w`: the state reached without the rejected calls, `w'`: with them (`all`: the calls of the whole history) -/
structure Inv (all : List Op) (w w' : World) : Prop where
  items : w'.items = w.items
  hdr : w'.headerOrigin = w.headerOrigin
  len : w'.keys.length = w.keys.length
  okeys : ∀ lf, originKeys w' lf = originKeys w lf
  sub : ∀ lf k, k ∈ lfKeys w lf → k ∈ lfKeys w' lf
  bf : ∀ lf, ∀ i ∈ w.items, i.key ∈ lfKeys w' lf → i.key ∈ lfKeys w lf
  reg : RegInv w
  prov : ∀ i ∈ w.items, ∃ a ∈ all, a.lf = i.lf ∧ a.key = i.key
  kprov : ∀ lf k, k ∈ lfKeys w' lf → ∃ b ∈ all, b.lf = lf ∧ b.key = k

theorem originsOfLf_congr {w w' : World} (hi : w'.items = w.items) (lf : Nat)
    (hk : originKeys w' lf = originKeys w lf) : originsOfLf w' lf = originsOfLf w lf := by
  rw [originsOfLf_eq, originsOfLf_eq, hk]
  congr 1
  funext k
  simp [itemsOfKey, hi]

theorem mem_originKeys {w : World} {lf : Nat} {k : Key} (hk : k.1 = 0) : k ∈ lfKeys w lf ↔ k ∈ originKeys w lf := by
  simp [originKeys, hk]

theorem originKeys_touch (w : World) (lf lf' : Nat) (k : Key) (h : lf' < w.keys.length) :
    originKeys (touchKey w lf' k) lf =
      if lf = lf' ∧ k.1 = 0 ∧ k ∉ lfKeys w lf then originKeys w lf ++ [k] else originKeys w lf := by
  unfold originKeys
  rw [lfKeys_touch w lf lf' k h]
  by_cases e : lf = lf'
  · simp only [e, ↓reduceIte, true_and]
    by_cases hk : k.1 = 0
    · rw [filter_origin_insertKey_origin _ _ hk]
      by_cases hm : k ∈ lfKeys w lf' <;> simp [hk, hm]
    · rw [filter_origin_insertKey_other _ _ hk]
      simp [hk]
  · simp [e]

/-- both histories register the same key (an accepted call, or an `add_origin` whose reference is taken) -/
theorem Inv.touch_both {all : List Op} {w w' : World} (h : Inv all w w') (op : Op) (hop : op ∈ all)
    (hlf : op.lf < w.keys.length) (k : Key) (hk : k = op.key) :
    Inv all (touchKey w op.lf k) (touchKey w' op.lf k) := by
  have hlf' : op.lf < w'.keys.length := by rw [h.len]; exact hlf
  refine ⟨h.items, h.hdr, by simp [touchKey, h.len], ?_, ?_, ?_, RegInv_touch w op.lf k hlf h.reg, h.prov, ?_⟩
  · intro lf
    rw [originKeys_touch _ _ _ _ hlf', originKeys_touch _ _ _ _ hlf, h.okeys lf]
    by_cases hk0 : k.1 = 0
    · have : k ∈ lfKeys w' lf ↔ k ∈ lfKeys w lf := by
        rw [mem_originKeys hk0, mem_originKeys hk0, h.okeys lf]
      simp [this]
    · simp [hk0]
  · intro lf k' hk'
    rw [lfKeys_touch _ _ _ _ hlf] at hk'
    rw [lfKeys_touch _ _ _ _ hlf']
    split at hk'
    · rename_i e; simp only [e, ↓reduceIte]
      rcases (mem_insertKey _ _ _).mp hk' with rfl | hm
      · exact (mem_insertKey _ _ _).mpr (Or.inl rfl)
      · exact (mem_insertKey _ _ _).mpr (Or.inr (h.sub _ _ (e ▸ hm)))
    · rename_i e; simp only [e, ↓reduceIte]; exact h.sub _ _ hk'
  · intro lf i hi hik
    have hi' : i ∈ w.items := hi
    rw [lfKeys_touch _ _ _ _ hlf'] at hik
    rw [lfKeys_touch _ _ _ _ hlf]
    split at hik
    · rename_i e; simp only [e, ↓reduceIte]
      rcases (mem_insertKey _ _ _).mp hik with he | hm
      · exact (mem_insertKey _ _ _).mpr (Or.inl he)
      · exact (mem_insertKey _ _ _).mpr (Or.inr (h.bf _ i hi' (e ▸ hm)))
    · rename_i e; simp only [e, ↓reduceIte]; exact h.bf _ i hi' hik
  · intro lf k' hk'
    rw [lfKeys_touch _ _ _ _ hlf'] at hk'
    split at hk'
    · rename_i e
      rcases (mem_insertKey _ _ _).mp hk' with rfl | hm
      · exact ⟨op, hop, e.symm, hk.symm⟩
      · exact h.kprov _ _ hm
    · exact h.kprov _ _ hk'

/-- only the history with the rejected calls registers the key (a rejected `add_<kind>`, kind ≠ ORIGIN) -/
theorem Inv.touch_right {all : List Op} {w w' : World} (h : Inv all w w') (op : Op) (hop : op ∈ all)
    (hdisj : ∀ a ∈ all, ∀ b ∈ all, a.key = b.key → a.lf = b.lf)
    (hlf : op.lf < w.keys.length) (k : Key) (hk : k = op.key) (hk0 : k.1 ≠ 0) :
    Inv all w (touchKey w' op.lf k) := by
  have hlf' : op.lf < w'.keys.length := by rw [h.len]; exact hlf
  refine ⟨h.items, h.hdr, by simp [touchKey, h.len], ?_, ?_, ?_, h.reg, h.prov, ?_⟩
  · intro lf
    rw [originKeys_touch _ _ _ _ hlf', h.okeys lf]
    simp [hk0]
  · intro lf k' hk'
    rw [lfKeys_touch _ _ _ _ hlf']
    split
    · rename_i e; exact (mem_insertKey _ _ _).mpr (Or.inr (h.sub _ _ hk'))
    · exact h.sub _ _ hk'
  · intro lf i hi hik
    rw [lfKeys_touch _ _ _ _ hlf'] at hik
    split at hik
    · rename_i e
      rcases (mem_insertKey _ _ _).mp hik with he | hm
      · -- an object under the rejected call's key: it was added through the same logical file
        obtain ⟨a, ha, hal, hak⟩ := h.prov i hi
        have : a.lf = op.lf := hdisj a ha op hop (by rw [hak, he, hk])
        have hil : i.lf = lf := by rw [← hal, this, e]
        rw [← hil]; exact h.reg.itemKey i hi
      · exact h.bf _ i hi hm
    · exact h.bf _ i hi hik
  · intro lf k' hk'
    rw [lfKeys_touch _ _ _ _ hlf'] at hk'
    split at hk'
    · rename_i e
      rcases (mem_insertKey _ _ _).mp hk' with rfl | hm
      · exact ⟨op, hop, e.symm, hk.symm⟩
      · exact h.kprov _ _ hm
    · exact h.kprov _ _ hk'

/-- the same object is registered in both histories; its key is already registered in its logical file -/
theorem Inv.append {all : List Op} {w w' : World} (h : Inv all w w') (op : Op) (hop : op ∈ all)
    (hdisj : ∀ a ∈ all, ∀ b ∈ all, a.key = b.key → a.lf = b.lf) (it : Item)
    (hl : it.lf = op.lf) (hkey : it.key = op.key) (hreg : it.key ∈ lfKeys w it.lf) :
    Inv all (appendItem w it) (appendItem w' it) := by
  have hk : ∀ (v : World) lf, lfKeys (appendItem v it) lf = lfKeys v lf := fun _ _ => rfl
  have hok : ∀ (v : World) lf, originKeys (appendItem v it) lf = originKeys v lf := fun _ _ => rfl
  refine ⟨by simp [appendItem, h.items], h.hdr, h.len, ?_, ?_, ?_, RegInv_append w it h.reg hreg, ?_, ?_⟩
  · intro lf; rw [hok, hok]; exact h.okeys lf
  · intro lf k hk'; rw [hk] at hk' ⊢; exact h.sub _ _ hk'
  · intro lf i hi hik
    rw [hk] at hik ⊢
    simp only [appendItem, List.mem_append, List.mem_singleton] at hi
    rcases hi with hi | rfl
    · exact h.bf _ i hi hik
    · -- the new object's key in the other history's registry of `lf`: that registry entry stems from a call
      -- through `lf`, and calls through different logical files name different sets
      by_cases e : lf = i.lf
      · rw [e]; exact hreg
      · exfalso
        obtain ⟨b, hb, hbl, hbk⟩ := h.kprov _ _ hik
        have : b.lf = op.lf := hdisj b hb op hop (by rw [hbk, hkey])
        exact e (by rw [← hbl, this, hl])
  · intro i hi
    simp only [appendItem, List.mem_append, List.mem_singleton] at hi
    rcases hi with hi | rfl
    · exact h.prov i hi
    · exact ⟨op, hop, hl.symm, hkey.symm⟩
  · intro lf k hk'; rw [hk] at hk'; exact h.kprov _ _ hk'

/-- back-filling the first origin's reference reaches the same objects in both histories -/
theorem Inv.backfill {all : List Op} {w w' : World} (h : Inv all w w') (lf : Nat) (r : Int) :
    Inv all (backfill w lf r) (backfill w' lf r) := by
  have hk : ∀ (v : World) l, lfKeys (Dlis.backfill v lf r) l = lfKeys v l := fun _ _ => rfl
  have hok : ∀ (v : World) l, originKeys (Dlis.backfill v lf r) l = originKeys v l := fun _ _ => rfl
  have hmem : ∀ i ∈ (Dlis.backfill w lf r).items, ∃ j ∈ w.items, i.key = j.key ∧ i.lf = j.lf := by
    intro i hi
    simp only [Dlis.backfill, List.mem_map] at hi
    obtain ⟨j, hj, rfl⟩ := hi
    refine ⟨j, hj, ?_, ?_⟩ <;> split <;> rfl
  refine ⟨?_, ?_, h.len, ?_, ?_, ?_, RegInv_backfill w lf r h.reg, ?_, ?_⟩
  · simp only [Dlis.backfill, h.items]
    apply List.map_congr_left
    intro i hi
    have : i.key ∈ lfKeys w' lf ↔ i.key ∈ lfKeys w lf := ⟨h.bf lf i hi, h.sub lf i.key⟩
    simp [this]
  · simp [Dlis.backfill, h.hdr]
  · intro l; rw [hok, hok]; exact h.okeys l
  · intro l k hk'; rw [hk] at hk' ⊢; exact h.sub _ _ hk'
  · intro l i hi hik
    rw [hk] at hik ⊢
    obtain ⟨j, hj, hkj, _⟩ := hmem i hi
    rw [hkj] at hik ⊢
    exact h.bf _ j hj hik
  · intro i hi
    obtain ⟨j, hj, hkj, hlj⟩ := hmem i hi
    obtain ⟨a, ha, hal, hak⟩ := h.prov j hj
    exact ⟨a, ha, by rw [hal, hlj], by rw [hak, hkj]⟩
  · intro l k hk'; rw [hk] at hk'; exact h.kprov _ _ hk'

theorem Inv.originsOfLf {all : List Op} {w w' : World} (h : Inv all w w') (lf : Nat) :
    originsOfLf w' lf = originsOfLf w lf := originsOfLf_congr h.items lf (h.okeys lf)

theorem Inv.copyNumber {all : List Op} {w w' : World} (h : Inv all w w') (k : Key) (n : PStr) :
    copyNumber w' k n = copyNumber w k n := copyNumber_items _ _ h.items k n

theorem mem_lfKeys_touch_self (w : World) (lf : Nat) (k : Key) (h : lf < w.keys.length) :
    k ∈ lfKeys (touchKey w lf k) lf := by
  rw [lfKeys_touch _ _ _ _ h]; simp only [↓reduceIte]; exact (mem_insertKey _ _ _).mpr (Or.inl rfl)

/-- one call: accepted in both histories, or rejected (then it is not an `add_origin`) and seen by one only -/
theorem Inv.step {all : List Op} {w w' : World} (h : Inv all w w') (op : Op) (hop : op ∈ all)
    (hdisj : ∀ a ∈ all, ∀ b ∈ all, a.key = b.key → a.lf = b.lf)
    (hlf : op.lf < w.keys.length) (hrej : op.rejected = true → op.isOrigin = false) :
    Inv all (if op.rejected then w else Dlis.step w op) (Dlis.step w' op) := by
  cases op with
  | item lf kind sn name oref out =>
    simp only [Dlis.step]
    by_cases hk0 : kind = 0
    · simp only [hk0, ↓reduceIte]; split <;> exact h
    · simp only [hk0, ↓reduceIte]
      have hlf0 : lf < w.keys.length := hlf
      cases out with
      | ok =>
        have hb : Inv all (touchKey w lf (kind, normName sn)) (touchKey w' lf (kind, normName sn)) :=
          h.touch_both (.item lf kind sn name oref .ok) hop hlf (kind, normName sn) rfl
        simp only [Op.rejected, bne_self_eq_false, Bool.false_eq_true, ↓reduceIte, addItem]
        have e1 : defaultOrigin (touchKey w' lf (kind, normName sn)) lf = defaultOrigin (touchKey w lf (kind, normName sn)) lf := by
          simp only [defaultOrigin, hb.originsOfLf lf]
        rw [e1, h.copyNumber]
        exact hb.append _ hop hdisj _ rfl rfl (mem_lfKeys_touch_self w lf (kind, normName sn) hlf0)
      | rejectEarly =>
        simp only [Op.rejected, addItem]
        exact (h.touch_right _ hop hdisj hlf (kind, normName sn) rfl hk0 : Inv all w (touchKey w' lf (kind, normName sn)))
      | rejectLate =>
        simp only [Op.rejected, addItem]
        exact (h.touch_right _ hop hdisj hlf (kind, normName sn) rfl hk0 : Inv all w (touchKey w' lf (kind, normName sn)))
  | origin lf sn name oref out =>
    have hout : out = .ok := by
      cases out
      · rfl
      · have := hrej (by simp [Op.rejected]); simp [Op.isOrigin] at this
      · have := hrej (by simp [Op.rejected]); simp [Op.isOrigin] at this
    subst hout
    have hlf0 : lf < w.keys.length := hlf
    have hb : Inv all (touchKey w lf (0, normName sn)) (touchKey w' lf (0, normName sn)) :=
      h.touch_both (.origin lf sn name oref .ok) hop hlf (0, normName sn) rfl
    simp only [Op.rejected, bne_self_eq_false, Bool.false_eq_true, ↓reduceIte, Dlis.step, addOrigin]
    rw [hb.originsOfLf lf]
    cases hnr : newOriginRef (Dlis.originsOfLf (touchKey w lf (0, normName sn)) lf) oref with
    | error e => exact hb
    | ok r =>
      simp only
      rw [h.copyNumber]
      have ha := hb.append _ hop hdisj
        { lf := lf, kind := 0, setName := normName sn, name := name, origin := some r, copy := Dlis.copyNumber w (0, normName sn) name }
        rfl rfl (mem_lfKeys_touch_self w lf (0, normName sn) hlf0)
      rw [ha.originsOfLf lf]
      split
      · exact ha.backfill lf r
      · exact ha

theorem lfKeys_init (n lf : Nat) : lfKeys (World.init n) lf = [] := by
  unfold lfKeys World.init
  simp only [List.getD_eq_getElem?_getD]
  by_cases h : lf < n
  · simp [h]
  · simp [h]

theorem Inv.init (all : List Op) (n : Nat) : Inv all (World.init n) (World.init n) := by
  refine ⟨rfl, rfl, rfl, fun _ => rfl, fun _ _ h => h, fun _ _ _ h => h, RegInv_init n, ?_, ?_⟩
  · intro i hi; simp [World.init] at hi
  · intro lf k hk; rw [lfKeys_init] at hk; simp at hk

theorem Inv.run {all : List Op} (hdisj : ∀ a ∈ all, ∀ b ∈ all, a.key = b.key → a.lf = b.lf) (n : Nat)
    (ops : List Op) (hsub : ∀ op ∈ ops, op ∈ all) (hv : ∀ op ∈ ops, op.lf < n)
    (hrej : ∀ op ∈ ops, op.rejected = true → op.isOrigin = false) :
    ∀ w w', w.keys.length = n → Inv all w w' →
      Inv all (Dlis.run w (ops.filter fun o => !o.rejected)) (Dlis.run w' ops) := by
  induction ops with
  | nil => intro w w' _ h; exact h
  | cons op ops ih =>
    intro w w' hn h
    have hs := h.step op (hsub op (by simp)) hdisj (by rw [hn]; exact hv op (by simp)) (hrej op (by simp))
    have ih' := ih (fun o ho => hsub o (by simp [ho])) (fun o ho => hv o (by simp [ho]))
      (fun o ho => hrej o (by simp [ho]))
    simp only [Dlis.run, List.foldl_cons] at ih' ⊢
    by_cases hr : op.rejected = true
    · simp only [hr, ↓reduceIte] at hs
      simp only [List.filter_cons, hr, Bool.not_true, Bool.false_eq_true, ↓reduceIte]
      exact ih' w _ hn hs
    · have hr' : op.rejected = false := by simpa using hr
      simp only [hr', Bool.false_eq_true, ↓reduceIte] at hs
      simp only [List.filter_cons, hr', Bool.not_false, ↓reduceIte, List.foldl_cons]
      exact ih' _ _ (by rw [keys_length_step, hn]) hs

theorem mem_setRecords_iff (w : World) (lf : Nat) (k : Key) (its : List Item) :
    (k, its) ∈ setRecords w lf ↔ k ∈ lfKeys w lf ∧ its = itemsOfKey w k ∧ its ≠ [] := by
  constructor
  · exact mem_setRecords w lf k its
  · rintro ⟨hk, rfl, hne⟩
    unfold setRecords
    simp only [List.mem_filterMap, List.mem_append, List.mem_filter]
    refine ⟨k, ?_, ?_⟩
    · by_cases h0 : k.1 = 0
      · exact Or.inl ⟨hk, by simp [h0]⟩
      · exact Or.inr ⟨hk, by simp [h0]⟩
    · have : (itemsOfKey w k).isEmpty = false := by
        cases hi : itemsOfKey w k with
        | nil => exact absurd hi hne
        | cons _ _ => rfl
      simp [this]

/-- C20, every history: the objects (with their origin references and copy numbers), the file headers' origins and
the set records of every logical file are those of the same history *without its rejected calls*, provided no
`add_origin` call is among the rejected ones and calls made through different logical files name different sets
(the two known findings lie exactly outside these two provisos) -/
theorem rejected_calls_invisible (n : Nat) (ops : List Op) (hv : ∀ op ∈ ops, op.lf < n)
    (hrej : ∀ op ∈ ops, op.rejected = true → op.isOrigin = false)
    (hdisj : ∀ a ∈ ops, ∀ b ∈ ops, a.key = b.key → a.lf = b.lf) :
    (run (World.init n) ops).items = (run (World.init n) (ops.filter fun o => !o.rejected)).items ∧
    (run (World.init n) ops).headerOrigin = (run (World.init n) (ops.filter fun o => !o.rejected)).headerOrigin ∧
    ∀ lf p, p ∈ setRecords (run (World.init n) ops) lf ↔
      p ∈ setRecords (run (World.init n) (ops.filter fun o => !o.rejected)) lf := by
  have h := Inv.run hdisj n ops (fun _ h => h) hv hrej (World.init n) (World.init n) (by simp [World.init])
    (Inv.init ops n)
  refine ⟨h.items, h.hdr, ?_⟩
  intro lf ⟨k, its⟩
  rw [mem_setRecords_iff, mem_setRecords_iff]
  have hit : itemsOfKey (run (World.init n) ops) k = itemsOfKey (run (World.init n) (ops.filter fun o => !o.rejected)) k := by
    simp [itemsOfKey, h.items]
  rw [hit]
  constructor
  · rintro ⟨hk, rfl, hne⟩
    refine ⟨?_, rfl, hne⟩
    obtain ⟨i, hi⟩ := List.exists_mem_of_ne_nil _ hne
    have hi' := hi
    simp only [itemsOfKey, List.mem_filter, decide_eq_true_eq] at hi'
    rw [← hi'.2] at hk ⊢
    exact h.bf lf i hi'.1 hk
  · rintro ⟨hk, rfl, hne⟩
    exact ⟨h.sub lf k hk, rfl, hne⟩

end Dlis
