/-
  Whole histories of `add_*` calls: the rejected calls of a history can be struck out.

  (Before the repair that registers a set with its logical file only once the object exists, a rejected call left
  an empty set key behind, and this file carried a simulation relation between a history and the history without
  its rejected calls, valid under two provisos — the two former known findings of C20.  Now a rejected call is the
  identity on the state, and the statement is an equality of states for every history.)
-/
import Dlismodel.Proofs.Api
namespace Dlis

theorem run_cons (w : World) (op : Op) (ops : List Op) : run w (op :: ops) = run (step w op) ops := rfl

/-- the state after any history is the state after the history without its rejected calls -/
theorem rejected_calls_invisible (w : World) (ops : List Op) :
    run w ops = run w (ops.filter fun o => !o.rejected) := by
  induction ops generalizing w with
  | nil => rfl
  | cons op ops ih =>
    by_cases h : op.rejected = true
    · rw [run_cons, rejected_is_identity w op h, List.filter_cons_of_neg (by simp [h])]
      exact ih w
    · rw [List.filter_cons_of_pos (by simpa using h), run_cons, run_cons]
      exact ih (step w op)

end Dlis
