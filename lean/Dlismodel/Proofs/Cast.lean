import Dlismodel.Model.Cast
import Dlismodel.Proofs.Prim
import Dlismodel.Proofs.Convert
namespace Dlis

theorem pow256_pos (k : Nat) : (0 : Int) < (256 : Int) ^ k := Int.pow_pos (by decide)

theorem castInt_holds (t : IntTy) (hb : 0 < t.bytes) (v : Int) : t.holds (castInt t v) := by
  have hp := pow256_pos t.bytes
  have he := pow256_even t.bytes hb
  have h0 := Int.emod_nonneg v (Int.ne_of_gt hp)
  have h1 := Int.emod_lt_of_pos v hp
  unfold IntTy.holds castInt
  cases hs : t.signed
  · simp only [Bool.false_and, Bool.false_eq_true, if_false]; exact ⟨h0, h1⟩
  · simp only [Bool.true_and, if_true, decide_eq_true_eq]
    split <;> constructor <;> omega

theorem castInt_exact (t : IntTy) (hb : 0 < t.bytes) (v : Int) (h : t.holds v) : castInt t v = v := by
  have hp := pow256_pos t.bytes
  have he := pow256_even t.bytes hb
  unfold IntTy.holds at h
  unfold castInt
  cases hs : t.signed
  · simp only [hs, Bool.false_eq_true, if_false] at h
    simp only [Bool.false_and, Bool.false_eq_true, if_false]
    exact Int.emod_eq_of_lt h.1 h.2
  · simp only [hs, if_true] at h
    simp only [Bool.true_and, decide_eq_true_eq]
    by_cases hv : 0 ≤ v
    · have : v % (256 : Int) ^ t.bytes = v := Int.emod_eq_of_lt hv (by omega)
      rw [this, if_neg (by omega)]
    · have : v % (256 : Int) ^ t.bytes = v + (256 : Int) ^ t.bytes := by
        have h2 : (v + (256 : Int) ^ t.bytes) % (256 : Int) ^ t.bytes = v + (256 : Int) ^ t.bytes :=
          Int.emod_eq_of_lt (by omega) (by omega)
        rw [← h2, Int.add_emod_right]
      rw [this, if_pos (by omega)]; omega

theorem castInt_congr (t : IntTy) (v : Int) : castInt t v % (256 : Int) ^ t.bytes = v % (256 : Int) ^ t.bytes := by
  unfold castInt
  simp only
  split
  · rw [Int.sub_emod, Int.emod_self, Int.sub_zero, Int.emod_emod_of_dvd _ (Int.dvd_refl _), Int.emod_emod_of_dvd _ (Int.dvd_refl _)]
  · exact Int.emod_emod_of_dvd _ (Int.dvd_refl _)

theorem encInt_castInt_ok (t : IntTy) (hb : 0 < t.bytes) (v : Int) : ∃ bs, encInt t (castInt t v) = .ok bs := by
  have h := castInt_holds t hb v
  unfold IntTy.holds at h
  unfold encInt
  cases hs : t.signed
  · simp only [hs, Bool.false_eq_true, if_false] at h ⊢; exact (encU_ok_iff _ _).mpr h
  · simp only [hs, if_true] at h ⊢; exact (encS_ok_iff _ _).mpr h

theorem decInt_encInt (t : IntTy) (hb : 0 < t.bytes) (v : Int) (bs rest : Bytes) (h : encInt t v = .ok bs) :
    decInt t (bs ++ rest) = some (v, rest) := by
  unfold encInt at h; unfold decInt
  cases hs : t.signed
  · simp only [hs, Bool.false_eq_true, if_false] at h ⊢; exact decU_encU h rest
  · simp only [hs, if_true] at h ⊢; exact decS_encS hb h rest

theorem holds_natAbs_lt (t : IntTy) (v : Int) (h : t.holds v) : v.natAbs < 256 ^ t.bytes := by
  have hp := pow256_pos t.bytes
  have hc := pow_cast t.bytes
  unfold IntTy.holds at h
  cases hs : t.signed
  · simp only [hs, Bool.false_eq_true, if_false] at h; omega
  · simp only [hs, if_true] at h; omega

/-- every value of a supported integer type (1, 2 or 4 bytes) becomes the double that stands for exactly that value -/
theorem castIntToF64_exact (t : IntTy) (hb : t.bytes ≤ 4) (v : Int) (h : t.holds v) :
    ∃ f, castIntToF64 v = some f ∧ f64ToInt f = some v := by
  have h1 := holds_natAbs_lt t v h
  have h2 : 256 ^ t.bytes ≤ 256 ^ 4 := Nat.pow_le_pow_right (by decide) hb
  exact intToF64R_exact v (by
    have : (256 : Nat) ^ 4 ≤ 2 ^ 53 := by decide
    omega)

end Dlis
