import Dlismodel.Model.Prim
import Dlismodel.Proofs.Util

namespace Dlis

theorem b8_toNat (n : Nat) : (b8 n).toNat = n % 256 := by
  simp [b8]

@[simp] theorem beN_length (k n : Nat) : (beN k n).length = k := by
  induction k generalizing n with
  | zero => simp [beN]
  | succ k ih => simp [beN, ih]

theorem rdN_beN (k n : Nat) (rest : Bytes) (h : n < 256 ^ k) :
    rdN k (beN k n ++ rest) = some (n, rest) := by
  induction k generalizing n rest with
  | zero => simp [beN, rdN]; omega
  | succ k ih =>
    have h1 : n / 256 < 256 ^ k := by
      rw [Nat.pow_succ] at h
      exact Nat.div_lt_of_lt_mul (by omega)
    simp only [beN, rdN, List.append_assoc, List.singleton_append]
    rw [ih (n / 256) (b8 n :: rest) h1]
    simp [b8_toNat]
    omega

theorem rdN_some_length {k : Nat} {bs : Bytes} {n : Nat} {r : Bytes} (h : rdN k bs = some (n, r)) :
    bs.length = k + r.length ∧ n < 256 ^ k := by
  induction k generalizing bs n r with
  | zero => simp [rdN] at h; obtain ⟨rfl, rfl⟩ := h; simp
  | succ k ih =>
    simp only [rdN] at h
    split at h
    · rename_i hi b rest heq
      have := ih heq
      simp at h
      obtain ⟨rfl, rfl⟩ := h
      have hb := b.toNat_lt
      simp at this
      refine ⟨by omega, ?_⟩
      rw [Nat.pow_succ]; omega
    · simp at h

end Dlis

namespace Dlis

/-! ### fixed-width integers -/

theorem pow_cast (k : Nat) : ((256 ^ k : Nat) : Int) = (256 : Int) ^ k := by
  simp [Int.natCast_pow]

theorem encU_ok_iff (k : Nat) (v : Int) :
    (∃ bs, encU k v = .ok bs) ↔ (0 ≤ v ∧ v < (256 : Int) ^ k) := by
  unfold encU; split <;> simp_all

theorem encU_length {k : Nat} {v : Int} {bs : Bytes} (h : encU k v = .ok bs) : bs.length = k := by
  unfold encU at h; split at h <;> simp at h; subst h; simp

theorem decU_encU {k : Nat} {v : Int} {bs : Bytes} (h : encU k v = .ok bs) (rest : Bytes) :
    decU k (bs ++ rest) = some (v, rest) := by
  unfold encU at h
  split at h
  · rename_i hr
    simp at h; subst h
    have hc := pow_cast k
    have : v.toNat < 256 ^ k := by omega
    simp [decU, rdN_beN k _ rest this, Int.toNat_of_nonneg hr.1]
  · simp at h

theorem encS_ok_iff (k : Nat) (v : Int) :
    (∃ bs, encS k v = .ok bs) ↔ (-((256 : Int) ^ k / 2) ≤ v ∧ v < (256 : Int) ^ k / 2) := by
  unfold encS; split <;> simp_all

theorem pow256_even (k : Nat) (hk : 0 < k) : (256 : Int) ^ k / 2 * 2 = (256 : Int) ^ k := by
  obtain ⟨j, rfl⟩ : ∃ j, k = j + 1 := ⟨k - 1, by omega⟩
  rw [Int.pow_succ]
  omega

theorem decS_encS {k : Nat} (hk : 0 < k) {v : Int} {bs : Bytes} (h : encS k v = .ok bs) (rest : Bytes) :
    decS k (bs ++ rest) = some (v, rest) := by
  unfold encS at h
  split at h
  · rename_i hr
    simp at h; subst h
    have hc := pow_cast k
    have hpos : (0 : Int) < (256 : Int) ^ k := Int.pow_pos (by decide)
    have hev := pow256_even k hk
    have hm0 : 0 ≤ v % (256 : Int) ^ k := Int.emod_nonneg _ (by omega)
    have hm1 : v % (256 : Int) ^ k < (256 : Int) ^ k := Int.emod_lt_of_pos _ hpos
    have hlt : (v % (256 : Int) ^ k).toNat < 256 ^ k := by omega
    simp only [decS, rdN_beN k _ rest hlt, Option.map_some]
    congr 1
    ext
    · simp only
      by_cases hv : 0 ≤ v
      · have e : v % (256 : Int) ^ k = v := Int.emod_eq_of_lt hv (by omega)
        rw [e]
        have : v.toNat < 256 ^ k / 2 := by omega
        simp [this, Int.toNat_of_nonneg hv]
      · have e : v % (256 : Int) ^ k = v + (256 : Int) ^ k := by
          rw [← Int.add_emod_right]
          exact Int.emod_eq_of_lt (by omega) (by omega)
        rw [e]
        have hnn : 0 ≤ v + (256 : Int) ^ k := by omega
        have : ¬ (v + (256 : Int) ^ k).toNat < 256 ^ k / 2 := by omega
        simp [this, Int.toNat_of_nonneg hnn]
    · rfl
  · simp at h

end Dlis

namespace Dlis

/-! ### UVARI -/

theorem encUvari_ok_iff (v : Int) : (∃ bs, encUvari v = .ok bs) ↔ (0 ≤ v ∧ v < 1073741824) := by
  unfold encUvari encU
  constructor
  · intro ⟨bs, h⟩
    split at h
    · split at h <;> simp at h; omega
    · split at h
      · split at h <;> simp at h; omega
      · split at h <;> simp at h
        rename_i h3; simp at h3; omega
  · intro ⟨h0, h1⟩
    split
    · rw [if_pos (by simp; omega)]; exact ⟨_, rfl⟩
    · split
      · rw [if_pos (by simp; omega)]; exact ⟨_, rfl⟩
      · rw [if_pos (by simp; omega)]; exact ⟨_, rfl⟩

theorem decUvari_1 (n : Nat) (rest : Bytes) (h : n < 128) :
    decUvari (beN 1 n ++ rest) = some (n, rest) := by
  simp only [beN, decUvari, List.nil_append, List.singleton_append, b8_toNat]
  rw [if_pos (by omega)]
  congr 2; omega

theorem decUvari_2 (n : Nat) (rest : Bytes) (h0 : 128 ≤ n) (h : n < 16384) :
    decUvari (beN 2 (n + 32768) ++ rest) = some (n, rest) := by
  simp only [beN, decUvari, List.nil_append, List.cons_append, b8_toNat]
  rw [if_neg (by omega), if_pos (by omega)]
  congr 2; omega

theorem decUvari_4 (n : Nat) (rest : Bytes) (h0 : 16384 ≤ n) (h : n < 1073741824) :
    decUvari (beN 4 (n + 3221225472) ++ rest) = some (n, rest) := by
  simp only [beN, decUvari, List.nil_append, List.cons_append, b8_toNat]
  rw [if_neg (by omega), if_neg (by omega)]
  congr 2; omega

theorem decUvari_encUvari {v : Int} {bs : Bytes} (h : encUvari v = .ok bs) (rest : Bytes) :
    decUvari (bs ++ rest) = some (v.toNat, rest) := by
  have hr := (encUvari_ok_iff v).mp ⟨bs, h⟩
  unfold encUvari encU at h
  split at h
  · rw [if_pos (by simp; omega)] at h
    simp at h; subst h
    exact decUvari_1 _ _ (by omega)
  · split at h
    · rw [if_pos (by simp; omega)] at h
      simp at h; subst h
      have : (v + 32768).toNat = v.toNat + 32768 := by omega
      rw [this]
      exact decUvari_2 _ _ (by omega) (by omega)
    · rw [if_pos (by simp; omega)] at h
      simp at h; subst h
      have : (v + 3221225472).toNat = v.toNat + 3221225472 := by omega
      rw [this]
      exact decUvari_4 _ _ (by omega) (by omega)

/-- length of the UVARI form: 1, 2 or 4 bytes at the 127/128 and 16383/16384 boundaries -/
theorem encUvari_length {v : Int} {bs : Bytes} (h : encUvari v = .ok bs) :
    bs.length = if v < 128 then 1 else if v < 16384 then 2 else 4 := by
  unfold encUvari at h
  split at h
  · rw [if_pos ‹_›]; exact encU_length h
  · rw [if_neg ‹_›]
    split at h
    · rw [if_pos ‹_›]; exact encU_length h
    · rw [if_neg ‹_›]; exact encU_length h

end Dlis

namespace Dlis

/-! ### text -/

theorem takeN_append (s rest : Bytes) : takeN s.length (s ++ rest) = some (s, rest) := by
  simp [takeN]

theorem allAscii_map_b8 (s : PStr) (h : isAscii s = true) : allAscii (s.map b8) = true := by
  unfold allAscii isAscii at *
  simp only [List.all_eq_true, List.mem_map, forall_exists_index, and_imp] at *
  intro b x hx hb
  subst hb
  have := h x hx
  simp only [decide_eq_true_eq] at *
  rw [b8_toNat]; omega

theorem asciiBytes_ok {s : PStr} {b : Bytes} (h : asciiBytes s = .ok b) :
    b = s.map b8 ∧ isAscii s = true := by
  unfold asciiBytes at h
  split at h <;> simp at h
  exact ⟨h.symm, ‹_›⟩

/-- ASCII (UVARI length prefix): the strict decoder returns the characters and the rest -/
theorem decAscii_encAscii {s : PStr} {bs : Bytes} (h : encAscii s = .ok bs) (rest : Bytes) :
    decAscii (bs ++ rest) = some (s.map b8, rest) := by
  simp only [encAscii, bind_ok, pure_ok] at h
  obtain ⟨l, hl, b, hb, rfl⟩ := h
  obtain ⟨rfl, ha⟩ := asciiBytes_ok hb
  have := decUvari_encUvari hl (s.map b8 ++ rest)
  simp only [decAscii, List.append_assoc, this]
  have e : (↑s.length : Int).toNat = (s.map b8).length := by simp
  rw [e, takeN_append]
  simp only [allAscii_map_b8 s ha, if_true]

theorem encAscii_ok_iff (s : PStr) :
    (∃ bs, encAscii s = .ok bs) ↔ (isAscii s = true ∧ s.length < 1073741824) := by
  simp only [encAscii, bind_ok, pure_ok]
  constructor
  · intro ⟨bs, l, hl, b, hb, _⟩
    have := (encUvari_ok_iff _).mp ⟨l, hl⟩
    exact ⟨(asciiBytes_ok hb).2, by omega⟩
  · intro ⟨ha, hl⟩
    obtain ⟨l, hl'⟩ := (encUvari_ok_iff (s.length : Int)).mpr ⟨by omega, by omega⟩
    exact ⟨_, l, hl', s.map b8, by simp [asciiBytes, ha], rfl⟩

/-- IDENT (one-byte length prefix) -/
theorem decIdent_encIdent {s : PStr} {bs : Bytes} (h : encIdent s = .ok bs) (rest : Bytes) :
    decIdent (bs ++ rest) = some (s.map b8, rest) := by
  unfold encIdent at h
  split at h; · simp at h
  rename_i hlen
  simp only [bind_ok, pure_ok] at h
  obtain ⟨b, hb, rfl⟩ := h
  obtain ⟨rfl, ha⟩ := asciiBytes_ok hb
  simp only [decIdent, List.cons_append, b8_toNat]
  have e : s.length % 256 = (s.map b8).length := by simp; omega
  rw [e, takeN_append]
  simp only [allAscii_map_b8 s ha, if_true]

theorem encIdent_ok_iff (s : PStr) :
    (∃ bs, encIdent s = .ok bs) ↔ (isAscii s = true ∧ s.length ≤ 255) := by
  unfold encIdent
  constructor
  · intro ⟨bs, h⟩
    split at h; · simp at h
    simp only [bind_ok, pure_ok] at h
    obtain ⟨b, hb, _⟩ := h
    exact ⟨(asciiBytes_ok hb).2, by omega⟩
  · intro ⟨ha, hl⟩
    rw [if_neg (by omega)]
    simp only [bind_ok, pure_ok]
    exact ⟨_, s.map b8, by simp [asciiBytes, ha], rfl⟩

theorem encIdent_length {s : PStr} {bs : Bytes} (h : encIdent s = .ok bs) : bs.length = 1 + s.length := by
  unfold encIdent at h
  split at h; · simp at h
  simp only [bind_ok, pure_ok] at h
  obtain ⟨b, hb, rfl⟩ := h
  obtain ⟨rfl, _⟩ := asciiBytes_ok hb
  simp; omega

end Dlis

namespace Dlis

/-! ### DTIME -/

theorem msOfMicro_le (us : Nat) : msOfMicro us ≤ 999 := by
  unfold msOfMicro; exact Nat.min_le_right _ _

/-- the millisecond written is within half a millisecond of the true value (or clamped at 999) -/
theorem msOfMicro_near (us : Nat) (h : us < 1000000) :
    (msOfMicro us * 1000 ≤ us + 500 ∧ us ≤ msOfMicro us * 1000 + 500) ∨ (msOfMicro us = 999 ∧ 999500 ≤ us) := by
  unfold msOfMicro
  simp only []
  split
  · omega
  · split
    · omega
    · split <;> omega

theorem encU1_ok {v : Int} {bs : Bytes} (h : encU 1 v = .ok bs) : 0 ≤ v ∧ v < 256 ∧ bs = [b8 v.toNat] := by
  unfold encU at h
  split at h <;> simp at h
  rename_i hr
  simp [beN] at h
  exact ⟨hr.1, by simpa using hr.2, h.symm⟩

theorem encU2_ok {v : Int} {bs : Bytes} (h : encU 2 v = .ok bs) :
    0 ≤ v ∧ v < 65536 ∧ bs = [b8 (v.toNat / 256), b8 v.toNat] := by
  unfold encU at h
  split at h <;> simp at h
  rename_i hr
  simp [beN] at h
  exact ⟨hr.1, by simpa using hr.2, h.symm⟩

/-- DTIME round-trip: the decoded fields are the UTC fields, time-zone code 2 (GMT), and the
rounded millisecond; whenever the encoder succeeds on calendar-valid fields the strict decoder
accepts. -/
theorem decDtime_encDtime {t : DTime} {bs : Bytes} (h : encDtime t = .ok bs) (rest : Bytes)
    (hm : 1 ≤ t.month ∧ t.month ≤ 12) (hd : 1 ≤ t.day ∧ t.day ≤ 31) (hh : t.hour ≤ 23)
    (hmi : t.minute ≤ 59) (hs : t.second ≤ 59) :
    decDtime (bs ++ rest) =
      some ({ y := (t.year - 1900).toNat, tz := 2, month := t.month, day := t.day, hour := t.hour,
              minute := t.minute, second := t.second, ms := msOfMicro t.micro }, rest) := by
  simp only [encDtime, bind_ok, pure_ok] at h
  obtain ⟨y, hy, tzm, htzm, d, hd', hb, hhb, mi, hmi', s, hs', ms, hms, rfl⟩ := h
  obtain ⟨_, _, rfl⟩ := encU1_ok hy
  obtain ⟨_, _, rfl⟩ := encU1_ok htzm
  obtain ⟨_, _, rfl⟩ := encU1_ok hd'
  obtain ⟨_, _, rfl⟩ := encU1_ok hhb
  obtain ⟨_, _, rfl⟩ := encU1_ok hmi'
  obtain ⟨_, _, rfl⟩ := encU1_ok hs'
  obtain ⟨_, _, rfl⟩ := encU2_ok hms
  have hle := msOfMicro_le t.micro
  simp only [List.cons_append, List.nil_append, decDtime, b8_toNat]
  have e1 : (32 + (t.month : Int)).toNat % 256 / 16 = 2 := by omega
  have e2 : (32 + (t.month : Int)).toNat % 256 % 16 = t.month := by omega
  have e3 : ((t.day : Int)).toNat % 256 = t.day := by omega
  have e4 : ((t.hour : Int)).toNat % 256 = t.hour := by omega
  have e5 : ((t.minute : Int)).toNat % 256 = t.minute := by omega
  have e6 : ((t.second : Int)).toNat % 256 = t.second := by omega
  have e7 : ((msOfMicro t.micro : Nat) : Int).toNat / 256 % 256 * 256 + ((msOfMicro t.micro : Nat) : Int).toNat % 256
      = msOfMicro t.micro := by omega
  have e8 : (t.year - 1900).toNat % 256 = (t.year - 1900).toNat := by omega
  rw [e1, e2, e3, e4, e5, e6, e7, e8]
  rw [if_pos (by omega)]

theorem encDtime_year_range {t : DTime} {bs : Bytes} (h : encDtime t = .ok bs) :
    1900 ≤ t.year ∧ t.year ≤ 2155 := by
  simp only [encDtime, bind_ok] at h
  obtain ⟨y, hy, _⟩ := h
  have := encU1_ok hy
  omega

/-! ### OBNAME / OBJREF / STATUS -/

theorem decObname_encObname {o : ObName} {bs : Bytes} (h : encObname o = .ok bs) (rest : Bytes) :
    decObname (bs ++ rest) = some ({ origin := o.origin.toNat, copy := o.copy.toNat, name := o.name.map b8 }, rest) := by
  simp only [encObname, bind_ok, pure_ok] at h
  obtain ⟨a, ha, c, hc, n, hn, rfl⟩ := h
  obtain ⟨_, _, rfl⟩ := encU1_ok hc
  simp only [decObname, List.append_assoc, decUvari_encUvari ha, List.cons_append, List.nil_append,
    decIdent_encIdent hn, b8_toNat]
  congr 3
  omega

theorem encObname_ok_iff (o : ObName) :
    (∃ bs, encObname o = .ok bs) ↔
      (0 ≤ o.origin ∧ o.origin < 1073741824 ∧ 0 ≤ o.copy ∧ o.copy < 256 ∧ isAscii o.name = true ∧ o.name.length ≤ 255) := by
  simp only [encObname, bind_ok, pure_ok]
  constructor
  · intro ⟨bs, a, ha, c, hc, n, hn, _⟩
    have h1 := (encUvari_ok_iff _).mp ⟨a, ha⟩
    have h2 := (encU_ok_iff 1 _).mp ⟨c, hc⟩
    have h3 := (encIdent_ok_iff _).mp ⟨n, hn⟩
    simp at h2
    exact ⟨h1.1, h1.2, h2.1, h2.2, h3.1, h3.2⟩
  · intro ⟨h1, h2, h3, h4, h5, h6⟩
    obtain ⟨a, ha⟩ := (encUvari_ok_iff _).mpr ⟨h1, h2⟩
    obtain ⟨c, hc⟩ := (encU_ok_iff 1 o.copy).mpr ⟨h3, by simpa using h4⟩
    obtain ⟨n, hn⟩ := (encIdent_ok_iff _).mpr ⟨h5, h6⟩
    exact ⟨_, a, ha, c, hc, n, hn, rfl⟩

theorem decObjref_encObjref {t : PStr} {o : ObName} {bs : Bytes} (h : encObjref t o = .ok bs) (rest : Bytes) :
    decObjref (bs ++ rest) =
      some ((t.map b8, { origin := o.origin.toNat, copy := o.copy.toNat, name := o.name.map b8 }), rest) := by
  simp only [encObjref, bind_ok, pure_ok] at h
  obtain ⟨a, ha, n, hn, rfl⟩ := h
  simp only [decObjref, List.append_assoc, decIdent_encIdent ha, decObname_encObname hn]

theorem decStatus_encStatus {v : Int} {bs : Bytes} (h : encStatus v = .ok bs) (rest : Bytes) :
    decStatus (bs ++ rest) = some (v.toNat, rest) := by
  unfold encStatus at h
  split at h; · simp at h
  obtain ⟨_, _, rfl⟩ := encU1_ok h
  simp only [decStatus, List.cons_append, List.nil_append, b8_toNat]
  rw [if_pos (by omega)]
  congr 2; omega

theorem encStatus_ok_iff (v : Int) : (∃ bs, encStatus v = .ok bs) ↔ (v = 0 ∨ v = 1) := by
  unfold encStatus
  constructor
  · intro ⟨bs, h⟩
    split at h; · simp at h
    omega
  · intro h
    rw [if_neg (by omega)]
    exact (encU_ok_iff 1 v).mpr ⟨by omega, by simp; omega⟩

end Dlis
