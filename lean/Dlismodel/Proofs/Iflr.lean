import Dlismodel.Model.Iflr
import Dlismodel.Proofs.Prim
namespace Dlis

def SlotOk (s : Slot) : Prop := ∀ e ∈ s.elems, e < 256 ^ s.size

theorem rdElems_slot (size : Nat) (es : List Nat) (rest : Bytes) (h : ∀ e ∈ es, e < 256 ^ size) :
    rdElems size es.length (es.flatMap (beN size) ++ rest) = some (es, rest) := by
  induction es with
  | nil => simp [rdElems]
  | cons e es ih =>
    simp only [List.length_cons, rdElems, List.flatMap_cons, List.append_assoc]
    rw [rdN_beN size e _ (h e (by simp))]
    simp only [ih (fun e' he' => h e' (by simp [he']))]

theorem rdSlots_slots (slots : List Slot) (rest : Bytes) (h : ∀ s ∈ slots, SlotOk s) :
    rdSlots (slots.map fun s => (s.size, s.elems.length)) (slots.flatMap slotBytes ++ rest) =
      some (slots.map (·.elems), rest) := by
  induction slots with
  | nil => simp [rdSlots]
  | cons s ss ih =>
    simp only [List.map_cons, rdSlots, List.flatMap_cons, List.append_assoc]
    have e : slotBytes s = s.elems.flatMap (beN s.size) := rfl
    rw [e, rdElems_slot s.size s.elems _ (h s (by simp))]
    have := ih (fun s' hs' => h s' (by simp [hs']))
    simp only [this]

theorem slotBytes_length (s : Slot) : (slotBytes s).length = s.size * s.elems.length := by
  unfold slotBytes
  induction s.elems with
  | nil => simp
  | cons e es ih => simp [List.flatMap_cons, ih, Nat.mul_add]; omega

theorem decFrameData_frameDataBody (fr : ObName) (num : Int) (slots : List Slot) (b : Bytes)
    (hs : ∀ s ∈ slots, SlotOk s) (h : frameDataBody fr num slots = .ok b) :
    decFrameData (slots.map fun s => (s.size, s.elems.length)) b =
      some ({ origin := fr.origin.toNat, copy := fr.copy.toNat, name := fr.name.map b8 }, num.toNat,
            slots.map (·.elems)) := by
  simp only [frameDataBody, bind_ok, pure_ok] at h
  obtain ⟨o, ho, n, hn, rfl⟩ := h
  unfold decFrameData
  rw [List.append_assoc, decObname_encObname ho]
  simp only
  rw [decUvari_encUvari hn]
  simp only
  have := rdSlots_slots slots [] hs
  rw [List.append_nil] at this
  rw [this]

theorem frameDataBody_length (fr : ObName) (num : Int) (slots : List Slot) (b o n : Bytes)
    (ho : encObname fr = .ok o) (hn : encUvari num = .ok n) (h : frameDataBody fr num slots = .ok b) :
    b.length = o.length + n.length + layoutBytes (slots.map fun s => (s.size, s.elems.length)) := by
  simp only [frameDataBody, bind_ok, pure_ok] at h
  obtain ⟨o', ho', n', hn', rfl⟩ := h
  rw [ho] at ho'; rw [hn] at hn'
  simp at ho' hn'; subst ho' hn'
  simp only [List.length_append, layoutBytes]
  congr 1
  induction slots with
  | nil => simp
  | cons s ss ih => simp [List.flatMap_cons, slotBytes_length, ih]

theorem decNoFormat_noFormatBody (nf : ObName) (payload b : Bytes) (h : noFormatBody nf payload = .ok b) :
    decNoFormat b = some ({ origin := nf.origin.toNat, copy := nf.copy.toNat, name := nf.name.map b8 }, payload) := by
  simp only [noFormatBody, bind_ok, pure_ok] at h
  obtain ⟨o, ho, rfl⟩ := h
  exact decObname_encObname ho payload

end Dlis
