namespace Dlis

theorem bind_ok {ε α β : Type} {x : Except ε α} {f : α → Except ε β} {b : β} :
    (x >>= f) = .ok b ↔ ∃ a, x = .ok a ∧ f a = .ok b := by
  cases x <;> simp [bind, Except.bind]

theorem pure_ok {ε α : Type} {a b : α} : (pure a : Except ε α) = .ok b ↔ a = b := by
  simp [pure, Except.pure]

theorem map_ok {ε α β : Type} {x : Except ε α} {f : α → β} {b : β} :
    (f <$> x) = .ok b ↔ ∃ a, x = .ok a ∧ f a = b := by
  cases x <;> simp [Functor.map, Except.map]

theorem obind_some {α β : Type} {x : Option α} {f : α → Option β} {b : β} :
    (x >>= f) = some b ↔ ∃ a, x = some a ∧ f a = some b := by
  cases x <;> simp [bind, Option.bind]

theorem emap_ok {ε α β : Type} {x : Except ε α} {f : α → β} {b : β} :
    Except.map f x = .ok b ↔ ∃ a, x = .ok a ∧ f a = b := by
  cases x <;> simp [Except.map]

end Dlis
