import Dlismodel.Proofs.Eflr
namespace Dlis

/-- for fewer than 128 characters the UVARI length prefix of ASCII is the single length byte of IDENT -/
theorem encAscii_eq_encIdent (s : PStr) (h : s.length < 128) : encAscii s = encIdent s := by
  unfold encAscii encIdent
  rw [if_neg (by omega)]
  have : encUvari (s.length : Int) = .ok [b8 s.length] := by
    unfold encUvari encU
    rw [if_pos (by omega), if_pos (by simp; omega)]
    simp [beN]
  rw [this]
  cases asciiBytes s <;> simp [bind, Except.bind, pure, Except.pure]

theorem justify_ascii {s : PStr} {len : Nat} {left : Bool} {b : Bytes} (h : justify s len left = .ok b) :
    allAscii b = true ∧ b.length = len := by
  refine ⟨?_, justify_length h⟩
  unfold justify at h
  split at h; · simp at h
  obtain ⟨rfl, ha⟩ := asciiBytes_ok h
  exact allAscii_map_b8 _ ha

/-- a short ASCII value (length prefix one byte < 128) is split off by the reader as a whole -/
theorem valSplit_ascii_short (n : Nat) (s rest : Bytes) (hn : n < 128) (hl : s.length = n) (ha : allAscii s = true) :
    valSplit 20 (b8 n :: s ++ rest) = some (b8 n :: s, rest) := by
  have hd : decAscii (b8 n :: s ++ rest) = some (s, rest) := by
    simp only [decAscii, List.cons_append, decUvari, b8_toNat]
    have e : n % 256 = n := by omega
    rw [e, if_pos hn]
    simp only
    rw [← hl, takeN_append]
    simp [ha]
  simp only [valSplit, hd, Option.map_some]
  have := viaRest_ok (b8 n :: s) rest
  simpa using this

def fhTemplate : List TAttr :=
  [{ label := sSEQ.map b8, count := 1, rc := 20, units := [] }, { label := sID.map b8, count := 1, rc := 20, units := [] }]

/-- one FILE-HEADER template entry: label + representation code ASCII -/
theorem parseTAttr_fh (lab : PStr) (l rest : Bytes) (hl : lab.length < 128) (hne : lab ≠ [])
    (h : encAscii lab = .ok l) :
    parseTAttr (0x34 :: l ++ [20] ++ rest) = some ({ label := lab.map b8, count := 1, rc := 20, units := [] }, rest) := by
  rw [encAscii_eq_encIdent lab hl] at h
  have hd := decIdent_encIdent h ([20] ++ rest)
  simp only [parseTAttr, List.cons_append, List.append_assoc, List.nil_append]
  have c1 : ¬ ((0x34 : UInt8).toNat / 32 ≠ 1 ∨ (0x34 : UInt8).toNat / 16 % 2 ≠ 1 ∨ (0x34 : UInt8).toNat % 2 = 1) := by decide
  rw [if_neg c1]
  simp only [List.cons_append, List.nil_append] at hd
  rw [hd]
  have : (lab.map b8).isEmpty = false := by cases lab <;> simp_all
  simp only [this, Bool.false_eq_true, ↓reduceIte]
  simp [parseCRU]

theorem parseTemplate_fh (l1 l2 rest : Bytes) (fuel : Nat) (hl1 : encAscii sSEQ = .ok l1) (hl2 : encAscii sID = .ok l2) :
    parseTemplate (fuel + 3) (0x34 :: l1 ++ [20] ++ (0x34 :: l2 ++ [20] ++ 0x70 :: rest)) = some (fhTemplate, 0x70 :: rest) := by
  have ht1 := parseTAttr_fh sSEQ l1 (0x34 :: l2 ++ [20] ++ 0x70 :: rest) (by decide) (by decide) hl1
  have ht2 := parseTAttr_fh sID l2 (0x70 :: rest) (by decide) (by decide) hl2
  have n34 : ¬ ((0x34 : UInt8).toNat / 32 = 3) := by decide
  have y70 : (0x70 : UInt8).toNat / 32 = 3 := by decide
  -- first entry
  have e1 : parseTemplate (fuel + 3) (0x34 :: l1 ++ [20] ++ (0x34 :: l2 ++ [20] ++ 0x70 :: rest)) =
      (parseTemplate (fuel + 2) (0x34 :: l2 ++ [20] ++ 0x70 :: rest)).map
        (fun p => (({ label := sSEQ.map b8, count := 1, rc := 20, units := [] } : TAttr) :: p.1, p.2)) := by
    conv => lhs; unfold parseTemplate
    simp only [List.cons_append]
    rw [if_neg n34]
    simp only [List.cons_append] at ht1
    rw [ht1]
  have e2 : parseTemplate (fuel + 2) (0x34 :: l2 ++ [20] ++ 0x70 :: rest) =
      (parseTemplate (fuel + 1) (0x70 :: rest)).map
        (fun p => (({ label := sID.map b8, count := 1, rc := 20, units := [] } : TAttr) :: p.1, p.2)) := by
    conv => lhs; unfold parseTemplate
    simp only [List.cons_append]
    rw [if_neg n34]
    simp only [List.cons_append] at ht2
    rw [ht2]
  have e3 : parseTemplate (fuel + 1) (0x70 :: rest) = some ([], 0x70 :: rest) := by
    unfold parseTemplate
    simp only [y70, ↓reduceIte]
  rw [e1, e2, e3]
  rfl

/-- one FILE-HEADER object attribute: descriptor 0x21 (value only), template supplies count 1 and code ASCII -/
theorem parseOAttrs_fh_one (t : TAttr) (ts : List TAttr) (k : Nat) (v rest : Bytes)
    (ht : t.count = 1 ∧ t.rc = 20 ∧ t.units = [])
    (hv : valSplit 20 (b8 k :: v ++ rest) = some (b8 k :: v, rest)) :
    parseOAttrs (t :: ts) (0x21 :: b8 k :: v ++ rest) =
      (parseOAttrs ts rest).map fun p => (some { count := 1, rc := 20, units := [], vals := [b8 k :: v] } :: p.1, p.2) := by
  obtain ⟨t1, t2, t3⟩ := ht
  have d21 : (0x21 : UInt8).toNat = 33 := by decide
  simp only [parseOAttrs, List.cons_append, d21]
  simp only [show ¬ (33 / 32 = 3) by decide, show ¬ (33 / 32 = 0) by decide, show (33 / 32 = 1) by decide,
    show ¬ (33 / 16 % 2 = 1) by decide, ↓reduceIte]
  simp only [parseCRU, show ¬ (33 / 8 % 2 = 1) by decide, show ¬ (33 / 4 % 2 = 1) by decide,
    show ¬ (33 / 2 % 2 = 1) by decide, ↓reduceIte, t1, t2, t3, show ¬ ((20 : Nat) = 0 ∨ 20 > 27) by decide,
    show (33 % 2 = 1) by decide]
  simp only [valsSplit]
  simp only [List.cons_append] at hv
  rw [hv]

theorem parseObjs_fh (name : ObName) (n s i : Bytes) (fuel : Nat) (hn : encObname name = .ok n)
    (hls : s.length = 10) (has : allAscii s = true) (hli : i.length = 65) (hai : allAscii i = true) :
    parseObjs fhTemplate (fuel + 1) (0x70 :: n ++ (0x21 :: 10 :: s ++ 0x21 :: 65 :: i)) =
      some [{ name := obnameVal name,
              attrs := [some { count := 1, rc := 20, units := [], vals := [b8 10 :: s] },
                        some { count := 1, rc := 20, units := [], vals := [b8 65 :: i] }] }] := by
  have hv1 := valSplit_ascii_short 10 s (0x21 :: 65 :: i) (by decide) hls has
  have hv2 := valSplit_ascii_short 65 i [] (by decide) hli hai
  have hname := decObname_encObname hn (0x21 :: 10 :: s ++ 0x21 :: 65 :: i)
  have b10 : (10 : UInt8) = b8 10 := by decide
  have b65 : (65 : UInt8) = b8 65 := by decide
  have hattrs : parseOAttrs fhTemplate (0x21 :: 10 :: s ++ 0x21 :: 65 :: i) =
      some ([some { count := 1, rc := 20, units := [], vals := [b8 10 :: s] },
             some { count := 1, rc := 20, units := [], vals := [b8 65 :: i] }], []) := by
    unfold fhTemplate
    rw [b10, parseOAttrs_fh_one _ _ 10 s (0x21 :: 65 :: i) ⟨rfl, rfl, rfl⟩ hv1]
    have e : (0x21 : UInt8) :: 65 :: i = 0x21 :: b8 65 :: i ++ [] := by rw [b65]; simp
    rw [e, parseOAttrs_fh_one _ _ 65 i [] ⟨rfl, rfl, rfl⟩ hv2]
    simp [parseOAttrs]
  unfold parseObjs
  simp only [List.cons_append] at hname ⊢
  have e70 : ¬ ((0x70 : UInt8).toNat ≠ 0x70) := by decide
  rw [if_neg e70, hname]
  simp only
  simp only [List.cons_append] at hattrs
  rw [hattrs]
  rfl

/-- FILE-HEADER (general): every body `FileHeaderSet._make_body_bytes` produces decodes under the component
grammar as one set of type FILE-HEADER with the two-entry template and exactly one object whose attributes are
the sequence number right-justified in 10 and the identifier left-justified in 65 ASCII characters -/
theorem parseEflr_fileHeaderBody (name : ObName) (seqNo : Int) (hid : PStr) (b : Bytes)
    (h : fileHeaderBody name seqNo hid = .ok b) :
    ∃ s i, justify (intStr seqNo) 10 false = .ok s ∧ justify hid 65 true = .ok i ∧
      parseEflr b = some
        { type := sFILEHEADER.map b8, name := none, template := fhTemplate,
          objects := [{ name := obnameVal name,
                        attrs := [some { count := 1, rc := 20, units := [], vals := [b8 10 :: s] },
                                  some { count := 1, rc := 20, units := [], vals := [b8 65 :: i] }] }] } := by
  simp only [fileHeaderBody, bind_ok, pure_ok] at h
  obtain ⟨t, ht, l1, hl1, l2, hl2, n, hn, s, hs, i, hi, rfl⟩ := h
  refine ⟨s, i, hs, hi, ?_⟩
  obtain ⟨has, hls⟩ := justify_ascii hs
  obtain ⟨hai, hli⟩ := justify_ascii hi
  have htype : (sFILEHEADER.map b8).isEmpty = false := by decide
  have hnodup : ((fhTemplate.map (·.label)).Nodup) := by decide
  -- normalise the byte string into  F0 :: t ++ (template ++ 70 :: objects)
  have hshape : (0xF0 : UInt8) :: t ++ (0x34 :: l1 ++ [20]) ++ (0x34 :: l2 ++ [20]) ++ (0x70 :: n) ++ (0x21 :: 10 :: s) ++
      (0x21 :: 65 :: i) =
      0xF0 :: (t ++ (0x34 :: l1 ++ [20] ++ (0x34 :: l2 ++ [20] ++ 0x70 :: (n ++ (0x21 :: 10 :: s ++ 0x21 :: 65 :: i))))) := by
    simp [List.append_assoc]
  rw [hshape]
  generalize hrest : n ++ (0x21 :: 10 :: s ++ 0x21 :: 65 :: i) = rest
  simp only [parseEflr]
  have c1 : ¬ ((0xF0 : UInt8).toNat / 32 ≠ 7 ∨ (0xF0 : UInt8).toNat / 16 % 2 ≠ 1 ∨ (0xF0 : UInt8).toNat % 8 ≠ 0) := by decide
  rw [if_neg c1, decIdent_encIdent ht]
  simp only [htype, Bool.false_eq_true, ↓reduceIte]
  have c2 : ¬ ((0xF0 : UInt8).toNat / 8 % 2 = 1) := by decide
  rw [if_neg c2]
  simp only
  have hfuel : ∃ f, (0x34 :: l1 ++ [20] ++ (0x34 :: l2 ++ [20] ++ 0x70 :: rest)).length + 1 = f + 3 := by
    refine ⟨(0x34 :: l1 ++ [20] ++ (0x34 :: l2 ++ [20] ++ 0x70 :: rest)).length - 2, ?_⟩
    simp; omega
  obtain ⟨f, hf⟩ := hfuel
  rw [hf, parseTemplate_fh l1 l2 rest f hl1 hl2]
  simp only [hnodup, decide_true, Bool.not_true, Bool.false_eq_true, ↓reduceIte]
  have hlen : (0x70 :: rest).length = rest.length + 1 := by simp
  rw [hlen, ← hrest]
  have := parseObjs_fh name n s i (n ++ (0x21 :: 10 :: s ++ 0x21 :: 65 :: i)).length hn hls has hli hai
  have this' : parseObjs fhTemplate ((n ++ (0x21 :: 10 :: s ++ 0x21 :: 65 :: i)).length + 1)
      (0x70 :: (n ++ (0x21 :: 10 :: s ++ 0x21 :: 65 :: i))) = _ := this
  rw [this']
  rfl

end Dlis
